#!/usr/bin/env python3
"""Set min_obligations (quick and thorough floors) in vlib/props.py to the obligation counts of the committed quick evidence
(run after a full quick pass): a unit that silently disappears then makes the check exit 2 instead of passing with fewer
obligations.  The thorough floor is the quick count (thorough runs a superset)."""
import json, os, re, sys
V = os.path.dirname(os.path.dirname(os.path.abspath(__file__)))
p = os.path.join(V, "vlib", "props.py")
s = open(p).read()
for f in sorted(os.listdir(os.path.join(V, "evidence"))):
    pid = f[:-5]
    ev = json.load(open(os.path.join(V, "evidence", f)))
    if ev.get("tier") != "quick":
        print(pid, "skipped: evidence is not from the quick tier"); continue
    n = ev["coverage"]["obligations"]
    # locate the property's block
    m = re.search(r'(PROPS\["%s"\] = dict\(|    "%s": dict\()' % (pid, pid), s)
    if not m:
        print(pid, "no block"); continue
    k = s.index("min_obligations=", m.end())
    e = s.index("}", k)
    s = s[:k] + 'min_obligations={"quick": %d, "thorough": %d' % (n, n) + s[e:]
    print(pid, n)
open(p, "w").write(s)
