import sys, os
sys.path.insert(0, '/verif')
from vlib import kani_runner, props
for pid, spec in sorted(props.PROPS.items()):
    for k in spec.get("kani", []):
        files=[os.path.join('/verif', f) for f in k["files"]]
        repro, out = kani_runner.native_replay(files, "no_such_harness", [], inject=k.get("inject", ()), annotations=k.get("annotations", ()))
        ok = "replay build failed" not in out
        print(pid, "BUILD-OK" if ok else "BUILD-FAILED", "" if ok else out[-800:])
