#!/usr/bin/env python3
"""Markdown table of what each registered check discharged on its last quick run, by back end (from evidence/*.json)."""
import json, os
V = os.path.dirname(os.path.dirname(os.path.abspath(__file__)))
rows = []
for f in sorted(os.listdir(os.path.join(V, "evidence"))):
    e = json.load(open(os.path.join(V, "evidence", f)))
    c = e["coverage"]; b = c.get("by_backend", {})
    rows.append((e["property_id"], e["level"], b.get("verus", 0), b.get("kani_triple", 0) + b.get("kani_contract", 0), b.get("native_bounded", 0),
                 c["obligations"], c["discharged"], len(c.get("known_findings_matched", [])), e.get("wall_s")))
print("| id | level | Verus units | Kani harnesses | native stand-ins | obligations | discharged | known findings | wall (s) |")
print("|----|-------|------------|----------------|------------------|-------------|------------|----------------|----------|")
for r in rows: print("| " + " | ".join(str(x) for x in r) + " |")
