#!/bin/bash
# tools/seed_eval.sh <PROP> <deliver-dir> <name>
# 1. confirm the seeded change: compiles, existing tests pass, demo fails with / passes without the change
# 2. store it under /verif/seeded/<name>/   3. run ./check <PROP> against a scratch copy with the change applied
set -u
PROP=$1; DEL=$2; NAME=$3
W=/var/tmp/seedchk.$$; OUT=/verif/seeded/$NAME
rm -rf $W; git -C /repo worktree add --detach $W >/dev/null 2>&1 || exit 2
export CARGO_TARGET_DIR=/var/tmp/demo-target
mkdir -p $OUT; cp $DEL/patch.diff $OUT/patch.diff; cp $DEL/demo_seed.rs $OUT/demo_seed.rs; cp $DEL/meta.json $OUT/meta.agent.json 2>/dev/null
cp $DEL/demo_seed.rs $W/examples/demo_seed.rs
cd $W
echo "== demo WITHOUT change"; cargo run --offline --example demo_seed >$OUT/demo_without.log 2>&1; R0=$?; tail -n 3 $OUT/demo_without.log
git apply $OUT/patch.diff || git apply -C1 $OUT/patch.diff || { echo "PATCH DOES NOT APPLY"; git -C /repo worktree remove --force $W; exit 2; }
echo "== tests WITH change"; cargo test --offline --workspace --lib >$OUT/tests_with.log 2>&1; RT=$?; grep -E '^test result' $OUT/tests_with.log | head -3
echo "== demo WITH change"; cargo run --offline --example demo_seed >$OUT/demo_with.log 2>&1; R1=$?; tail -n 4 $OUT/demo_with.log
echo "demo_without_exit=$R0 tests_with_exit=$RT demo_with_exit=$R1"
echo "== check $PROP against the changed tree"
rm -f examples/demo_seed.rs
cd /verif
VERIF_REPO=$W VERIF_EVIDENCE_DIR=/var/tmp/seed-evidence VERIF_REPLAY_DIR=$OUT/replays ./check $PROP --tier ${TIER:-quick} > $OUT/check.log 2>&1; RC=$?
grep -E 'VIOLATION|KNOWN|ERROR|tier=' $OUT/check.log | cut -c1-400
echo "check_exit=$RC"
python3 - <<PY
import json,os
m={"property":"$PROP","name":"$NAME","demo_without_exit":$R0,"tests_with_exit":$RT,"demo_with_exit":$R1,"check_exit":$RC,
   "confirmed": ($R0==0 and $RT==0 and $R1!=0), "detected": ($RC==1),
   "ran":["cargo run --offline --example demo_seed (clean worktree)","git apply patch.diff","cargo test --offline --workspace --lib","cargo run --offline --example demo_seed (changed)","VERIF_REPO=<changed worktree> ./check $PROP"]}
try:
    a=json.load(open("$OUT/meta.agent.json")); m["summary"]=a.get("summary"); m["needs"]=a.get("needs")
except Exception as e: pass
json.dump(m,open("$OUT/meta.json","w"),indent=1)
PY
git -C /repo worktree remove --force $W
