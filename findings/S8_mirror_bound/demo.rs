// Demonstration for C14 / S8: boundary repair must terminate for every finite solution, including a coordinate
// that lies exactly on the upper bound (or is reflected onto it).  Run under a watchdog: `timeout 10 ...`.
use std::ops::Range;
use mahf::{
    components::boundary::{BoundaryConstraint, CompleteOneTailedNormalCorrection, Mirror},
    problems::{LimitedVectorProblem, VectorProblem},
    Problem, Random, SingleObjective,
};

struct Box1;
impl Problem for Box1 {
    type Encoding = Vec<f64>;
    type Objective = SingleObjective;
    fn name(&self) -> &str { "Box1" }
}
impl VectorProblem for Box1 {
    type Element = f64;
    fn dimension(&self) -> usize { 1 }
}
impl LimitedVectorProblem for Box1 {
    fn domain(&self) -> Vec<Range<f64>> { vec![-1.0..2.0] }
}

fn main() {
    let mut rng = Random::new(0);
    for x in [2.0, -4.0, 5.0] {   // the upper bound; one width below the lower bound (reflects onto the upper bound); one width above
        let mut s = vec![x];
        println!("Mirror on x = {x} ...");
        Mirror.constrain(&mut s, &Box1, &mut rng);
        println!("  -> {}", s[0]);
        assert!(s[0] >= -1.0 && s[0] <= 2.0);
    }
    let mut s = vec![2.0];
    println!("CompleteOneTailedNormalCorrection on x = 2 ...");
    CompleteOneTailedNormalCorrection.constrain(&mut s, &Box1, &mut rng);
    println!("  -> {}", s[0]);
    assert!(s[0] == 2.0);
    println!("DEMO-PASS");
}
