// Demonstration for C15 / S17: "Every configuration, including every shipped template, can be serialised".
// `Configuration::to_ron` fails for every configuration that contains a lens-based condition or mapping (e.g. any loop bounded
// by `LessThanN::iterations`): `SerializablePhantom<T>` serialises itself as a unit struct NAMED `type_name::<T>()`
// ("mahf::state::common::Iterations"), which the pinned ron 0.8.1 rejects as an invalid identifier.
use mahf::{conditions::LessThanN, Configuration, Problem, SingleObjective};

struct P;
impl Problem for P {
    type Encoding = ();
    type Objective = SingleObjective;
    fn name(&self) -> &str { "P" }
}

fn main() {
    let config = Configuration::<P>::builder().while_(LessThanN::iterations(10), |b| b).build();
    let path = std::env::temp_dir().join(format!("demo_s17_{}.ron", std::process::id()));
    let r = config.to_ron(&path);
    let text = std::fs::read_to_string(&path).unwrap_or_default();
    let _ = std::fs::remove_file(&path);
    match r {
        Ok(()) => {
            println!("{text}");
            if text.contains("Iterations") && text.contains("LessThanN") && text.contains("10") { println!("DEMO-PASS") } else { println!("DEMO-FAIL: the export does not name the condition, its lens and its bound"); std::process::exit(1) }
        }
        Err(e) => { println!("to_ron failed: {e:#}"); println!("DEMO-FAIL"); std::process::exit(1) }
    }
}
