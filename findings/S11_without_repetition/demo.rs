// Demonstration for C11 / S11: selecting `len` distinct members without repetition is a sufficient population.
use mahf::{
    components::selection::{RandomWithoutRepetition, Selection},
    Individual, Problem, Random, SingleObjective,
};

struct P;
impl Problem for P {
    type Encoding = usize;
    type Objective = SingleObjective;
    fn name(&self) -> &str { "P" }
}

fn main() {
    let pop: Vec<Individual<P>> = (0..2).map(|i| Individual::new(i, 1.0.try_into().unwrap())).collect();
    let mut rng = Random::new(1);
    let mut ok = true;
    for n in 0..=3u32 {
        let r = <RandomWithoutRepetition as Selection<P>>::select(&RandomWithoutRepetition::from_params(n), &pop, &mut rng);
        let summary = r.as_ref().map(|v| v.iter().map(|i| *i.solution()).collect::<Vec<_>>()).map_err(|_| "Err");
        println!("select {n} of 2 without repetition -> {summary:?}");
        match r {
            Ok(v) => {
                let mut idx: Vec<_> = v.iter().map(|i| *i.solution()).collect();
                idx.sort(); idx.dedup();
                ok &= n as usize <= pop.len() && v.len() == n as usize && idx.len() == n as usize;
            }
            Err(_) => ok &= n as usize > pop.len(),   // only "too few individuals" is an error
        }
    }
    if ok { println!("DEMO-PASS") } else { println!("DEMO-FAIL"); std::process::exit(1) }
}
