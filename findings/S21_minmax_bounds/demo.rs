// Demonstration for C19 / S21: "keeping all trails finite and non-negative and, for the max-min variant, within the configured
// bounds".  MinMaxPheromoneUpdate clamps only the edges of the rewarded tour; every other trail keeps evaporating and falls
// below min_pheromones.
use mahf::{
    components::{generative::{AcoGeneration, MinMaxPheromoneUpdate, PheromoneMatrix}, initialization::Empty},
    problems::{ObjectiveFunction, Sequential, TravellingSalespersonProblem, VectorProblem},
    state::common::Populations,
    Component, Configuration, Problem, Random, SingleObjective, State,
};

struct Tsp;
fn d(i: usize, j: usize) -> f64 { if i == j { 1.0e9 } else { (i as f64 - j as f64).abs() } }
impl Problem for Tsp {
    type Encoding = Vec<usize>;
    type Objective = SingleObjective;
    fn name(&self) -> &str { "Tsp" }
}
impl VectorProblem for Tsp {
    type Element = usize;
    fn dimension(&self) -> usize { 5 }
}
impl TravellingSalespersonProblem for Tsp {
    fn distance(&self, e: (usize, usize)) -> f64 { d(e.0, e.1) }
}
impl ObjectiveFunction for Tsp {
    fn objective(&self, s: &Vec<usize>) -> SingleObjective {
        let mut l = d(*s.last().unwrap(), s[0]);
        for w in s.windows(2) { l += d(w[0], w[1]); }
        SingleObjective::try_from(l).unwrap()
    }
}

fn main() {
    let (tmin, tmax) = (0.05, 2.0);
    let generation: Box<dyn Component<Tsp>> = AcoGeneration::new(4, 1.0, 2.0, 1.0);
    let update: Box<dyn Component<Tsp>> = MinMaxPheromoneUpdate::new(0.2, tmax, tmin).unwrap();
    let evaluate = Configuration::<Tsp>::builder().evaluate().build();
    let mut state: State<Tsp> = State::new();
    state.insert(Random::new(0));
    state.insert(Populations::<Tsp>::new());
    state.insert_evaluator(Sequential::<Tsp>::new());
    <Empty as Component<Tsp>>::execute(&Empty, &Tsp, &mut state).unwrap();
    generation.init(&Tsp, &mut state).unwrap();
    evaluate.heuristic().init(&Tsp, &mut state).unwrap();
    let mut worst = f64::INFINITY;
    for _ in 0..25 {
        generation.execute(&Tsp, &mut state).unwrap();
        evaluate.heuristic().execute(&Tsp, &mut state).unwrap();
        update.execute(&Tsp, &mut state).unwrap();
        let pm = state.borrow::<PheromoneMatrix>();
        for i in 0..5 { for j in 0..5 { if i != j { worst = worst.min(pm[i][j]); } } }
    }
    println!("smallest trail seen over 25 max-min updates: {worst} (configured bounds [{tmin}, {tmax}])");
    if worst >= tmin { println!("DEMO-PASS") } else { println!("DEMO-FAIL"); std::process::exit(1) }
}
