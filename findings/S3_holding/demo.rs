// Demonstration for C02 / S3: `State::holding` must put the state it took out back into the scope it came
// from "whether or not the code using it fails".
use mahf::{state::common::{Evaluations, Iterations}, Problem, SingleObjective, State};

struct P;
impl Problem for P {
    type Encoding = Vec<u8>;
    type Objective = SingleObjective;
    fn name(&self) -> &str { "P" }
}

fn main() {
    let mut state: State<P> = State::new();
    state.insert(Evaluations(3));
    state.insert(Iterations(1));
    let r = state.holding::<Evaluations>(|evals, rest| {
        evals.0 += 1;                          // a write through the taken-out state
        rest.set_value::<Iterations>(2);       // use it next to the rest of the state
        Err(eyre::eyre!("the code using it fails"))
    });
    assert!(r.is_err());
    let back = state.contains::<Evaluations>();
    println!("after a failing closure: Evaluations is back in the state: {back}");
    let ok = back && state.get_value::<Evaluations>() == 4 && state.get_value::<Iterations>() == 2;
    // and the state is usable again: a second holding succeeds
    let again = state.holding::<Evaluations>(|_, _| Ok(())).is_ok();
    println!("a second holding succeeds: {again}");
    if ok && again { println!("DEMO-PASS") } else { println!("DEMO-FAIL"); std::process::exit(1) }
}
