// Demonstration for C13 / S7: "no operator rejects a parameter value its documentation allows ... or errs on a
// valid population": SwapMutation documents an error only for num_swap < 2 and num_swap > solution length.
use mahf::{
    components::mutation::SwapMutation, problems::VectorProblem, state::common::Populations, Component, Individual,
    Problem, Random, SingleObjective, State,
};

struct P;
impl Problem for P {
    type Encoding = Vec<usize>;
    type Objective = SingleObjective;
    fn name(&self) -> &str { "P" }
}
impl VectorProblem for P {
    type Element = usize;
    fn dimension(&self) -> usize { 3 }
}

fn main() {
    let two = SwapMutation::from_params(2);
    println!("SwapMutation::from_params(2) -> {}", if two.is_ok() { "Ok" } else { "Err" });
    let mut ok = two.is_ok() && SwapMutation::from_params(1).is_err();
    // swapping all 3 positions of a length-3 permutation is a valid request
    let m = SwapMutation::from_params(3).unwrap();
    let mut state: State<P> = State::new();
    state.insert(Random::new(7));
    state.insert(Populations::<P>::new());
    state.populations_mut().push(vec![Individual::new_unevaluated(vec![0, 1, 2])]);
    let r = <SwapMutation as Component<P>>::execute(&m, &P, &mut state);
    println!("3 swaps on a solution of length 3 -> {}", if r.is_ok() { "Ok" } else { "Err" });
    if r.is_ok() {
        let mut s = state.populations().current()[0].solution().clone();
        s.sort();
        ok &= s == vec![0, 1, 2];
    } else { ok = false; }
    if ok { println!("DEMO-PASS") } else { println!("DEMO-FAIL"); std::process::exit(1) }
}
