// Demonstration for C11 / S12: rank-based selection must never favour a worse individual over a better one.
use mahf::{
    components::selection::{ExponentialRank, Selection},
    Individual, Problem, Random, SingleObjective,
};

struct P;
impl Problem for P {
    type Encoding = usize;
    type Objective = SingleObjective;
    fn name(&self) -> &str { "P" }
}

fn main() {
    // objective values 1.0 (best) .. 4.0 (worst); the encoding records the index
    let pop: Vec<Individual<P>> = (0..4).map(|i| Individual::new(i, ((i + 1) as f64).try_into().unwrap())).collect();
    let mut counts = [0usize; 4];
    let mut rng = Random::new(42);
    let sel = <ExponentialRank as Selection<P>>::select(&ExponentialRank::from_params(40_000, 0.5).unwrap(), &pop, &mut rng).unwrap();
    for i in sel { counts[*i.solution()] += 1; }
    println!("selection counts for objectives [1,2,3,4] (best first): {counts:?}");
    // a better individual must not be selected (noticeably) less often than a worse one
    let ok = counts[0] + 1000 >= counts[1] && counts[1] + 1000 >= counts[2] && counts[2] + 1000 >= counts[3] && counts[0] > counts[3];
    if ok { println!("DEMO-PASS") } else { println!("DEMO-FAIL: the worst individual is favoured"); std::process::exit(1) }
}
