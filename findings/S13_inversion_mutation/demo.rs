// Demonstration for C13 / S13: "InversionMutation draws its two cut points with choose_multiple, which returns them in arbitrary order; start > end makes the slice index panic"
// C13: permutation operators return a permutation of the same elements and "no operator ... panics, or errs on a valid population".
use mahf::{
    components::mutation::common::InversionMutation, problems::VectorProblem, state::common::Populations, Component, Individual,
    Problem, Random, SingleObjective, State,
};

struct P;
impl Problem for P {
    type Encoding = Vec<usize>;
    type Objective = SingleObjective;
    fn name(&self) -> &str { "P" }
}
impl VectorProblem for P {
    type Element = usize;
    fn dimension(&self) -> usize { 5 }
}

fn main() {
    let mut failures = 0;
    std::panic::set_hook(Box::new(|_| {}));
    for seed in 0..64u64 {
        let r = std::panic::catch_unwind(|| {
            let op: Box<dyn Component<P>> = InversionMutation::new::<P, ()>();
            let mut state: State<P> = State::new();
            state.insert(Random::new(seed));
            state.insert(Populations::<P>::new());
            state.populations_mut().push(vec![Individual::new_unevaluated(vec![0, 1, 2, 3, 4])]);
            op.execute(&P, &mut state).expect("execute returned an error");
            let mut s = state.populations().current()[0].solution().clone();
            s.sort();
            assert_eq!(s, vec![0, 1, 2, 3, 4]);
        });
        if let Err(p) = r {
            if failures == 0 {
                let msg = p.downcast_ref::<String>().cloned().or_else(|| p.downcast_ref::<&str>().map(|s| s.to_string())).unwrap_or_default();
                println!("seed {seed}: InversionMutation on [0, 1, 2, 3, 4] panicked: {msg}");
            }
            failures += 1;
        }
    }
    println!("{failures} of 64 seeds fail");
    if failures == 0 { println!("DEMO-PASS") } else { println!("DEMO-FAIL"); std::process::exit(1) }
}
