// Demonstration for C17 / S9: Metropolis rule — a candidate at least as good as the current solution always
// replaces it; a much worse candidate at low temperature (almost) never does.  In the SA template the candidate is
// the TOP population (copy + mutation of the current one, which lies below it).
use mahf::{
    components::replacement::sa::ExponentialAnnealingAcceptance, state::common::Populations, Component, Individual,
    Problem, Random, SingleObjective, State,
};

struct P;
impl Problem for P {
    type Encoding = u8;
    type Objective = SingleObjective;
    fn name(&self) -> &str { "P" }
}
fn ind(tag: u8, f: f64) -> Vec<Individual<P>> { vec![Individual::new(tag, f.try_into().unwrap())] }

/// returns how often the candidate (tag 2) survived over `n` seeds
fn survivals(f_current: f64, f_candidate: f64, t: f64, n: u64) -> u64 {
    let acc: Box<dyn Component<P>> = ExponentialAnnealingAcceptance::new(t);
    let mut count = 0;
    for seed in 0..n {
        let mut state: State<P> = State::new();
        state.insert(Random::new(seed));
        state.insert(Populations::<P>::new());
        acc.init(&P, &mut state).unwrap();
        state.populations_mut().push(ind(1, f_current));
        state.populations_mut().push(ind(2, f_candidate));
        acc.execute(&P, &mut state).unwrap();
        assert_eq!(state.populations().len(), 1);
        if *state.populations().current()[0].solution() == 2 { count += 1; }
    }
    count
}

fn main() {
    let better = survivals(1.0, 0.0, 0.01, 200);
    let equal = survivals(1.0, 1.0, 0.01, 200);
    let worse = survivals(0.0, 1.0, 0.01, 200);
    println!("T = 0.01, 200 seeds: better candidate accepted {better}x, equal {equal}x, much worse {worse}x");
    if better == 200 && equal == 200 && worse <= 2 { println!("DEMO-PASS") } else { println!("DEMO-FAIL"); std::process::exit(1) }
}
