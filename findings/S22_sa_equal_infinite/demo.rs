// Demonstration for C17 / S22: "A candidate at least as good as the current solution always replaces it."  Two infeasible
// solutions (objective +inf, which SingleObjective accepts) are equally good, but the acceptance test is
// `candidate < current || u < exp((inf - inf) / T)` = `false || u < NaN` = false: the equal candidate is always rejected.
use mahf::{
    components::replacement::sa::ExponentialAnnealingAcceptance, state::common::Populations, Component, Individual,
    Problem, Random, SingleObjective, State,
};

struct P;
impl Problem for P {
    type Encoding = u8;
    type Objective = SingleObjective;
    fn name(&self) -> &str { "P" }
}
fn ind(tag: u8, f: f64) -> Vec<Individual<P>> { vec![Individual::new(tag, f.try_into().unwrap())] }

/// returns how often the candidate (tag 2) survived over `n` seeds
fn survivals(f_current: f64, f_candidate: f64, t: f64, n: u64) -> u64 {
    let acc: Box<dyn Component<P>> = ExponentialAnnealingAcceptance::new(t);
    let mut count = 0;
    for seed in 0..n {
        let mut state: State<P> = State::new();
        state.insert(Random::new(seed));
        state.insert(Populations::<P>::new());
        acc.init(&P, &mut state).unwrap();
        state.populations_mut().push(ind(1, f_current));
        state.populations_mut().push(ind(2, f_candidate));
        acc.execute(&P, &mut state).unwrap();
        assert_eq!(state.populations().len(), 1);
        if *state.populations().current()[0].solution() == 2 { count += 1; }
    }
    count
}

fn main() {
    let mut ok = true;
    for t in [1.0e-9, 1.0, 1.0e9] {
        let equal_finite = survivals(1.0, 1.0, t, 100);
        let equal_inf = survivals(f64::INFINITY, f64::INFINITY, t, 100);
        let better = survivals(f64::INFINITY, 5.0, t, 100);
        println!("T = {t}, 100 seeds: equal finite candidate accepted {equal_finite}x, equal infinite candidate {equal_inf}x, finite candidate against infinite current {better}x");
        ok &= equal_finite == 100 && equal_inf == 100 && better == 100;
    }
    if ok { println!("DEMO-PASS") } else { println!("DEMO-FAIL"); std::process::exit(1) }
}
