// Demonstration for C10 / S5: ChangeOf with the PartialEq checker must be true exactly when the observed value
// differs from the one it last reported.
use mahf::{
    conditions::{common::{DeltaEqChecker, PartialEqChecker}, ChangeOf, Condition},
    lens::ValueOf,
    state::common::Iterations,
    Problem, SingleObjective, State,
};

struct P;
impl Problem for P {
    type Encoding = Vec<u8>;
    type Objective = SingleObjective;
    fn name(&self) -> &str { "P" }
}

fn run(cond: Box<dyn Condition<P>>, values: &[u32]) -> Vec<bool> {
    let mut state: State<P> = State::new();
    state.insert(Iterations(values[0]));
    cond.init(&P, &mut state).unwrap();
    values.iter().map(|v| {
        state.set_value::<Iterations>(*v);
        cond.evaluate(&P, &mut state).unwrap()
    }).collect()
}

fn main() {
    let values = [5, 5, 6, 6, 9];
    // first observation always reports; afterwards true exactly when the value differs from the last reported one
    let want_eq = vec![true, false, true, false, true];
    let got_eq = run(ChangeOf::new(PartialEqChecker::new(), ValueOf::<Iterations>::new()), &values);
    println!("ChangeOf/PartialEq on {values:?}: got {got_eq:?}, want {want_eq:?}");
    // delta checker with threshold 2: reports when the value moved by at least 2 from the last reported one
    let want_delta = vec![true, false, false, false, true];
    let got_delta = run(ChangeOf::new(DeltaEqChecker::new(2u32), ValueOf::<Iterations>::new()), &values);
    println!("ChangeOf/Delta(2)  on {values:?}: got {got_delta:?}, want {want_delta:?}");
    if got_eq == want_eq && got_delta == want_delta { println!("DEMO-PASS") } else { println!("DEMO-FAIL"); std::process::exit(1) }
}
