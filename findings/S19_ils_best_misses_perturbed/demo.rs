// Demonstration for C07 / S19: "For every shipped heuristic the best objective value reported at the end of a run equals the
// minimum value the objective function returned during that run."  In the ILS templates the perturbed incumbent is evaluated,
// but the best-so-far was only updated from the local-search result; a perturbed individual better than everything else was
// never recorded and the next pass perturbs it in place.
use std::sync::Mutex;

use mahf::{
    conditions::LessThanN,
    heuristics::{ils, ls},
    problems::{LimitedVectorProblem, ObjectiveFunction, Sequential, VectorProblem},
    Problem, Random, SingleObjective,
};

struct Sphere { returned: Mutex<Vec<f64>> }
impl Problem for Sphere {
    type Encoding = Vec<f64>;
    type Objective = SingleObjective;
    fn name(&self) -> &str { "Sphere" }
}
impl VectorProblem for Sphere {
    type Element = f64;
    fn dimension(&self) -> usize { 3 }
}
impl LimitedVectorProblem for Sphere {
    fn domain(&self) -> Vec<std::ops::Range<f64>> { vec![-5.0..5.0; 3] }
}
impl ObjectiveFunction for Sphere {
    fn objective(&self, s: &Vec<f64>) -> SingleObjective {
        let f = s.iter().map(|v| (v - 0.5) * (v - 0.5)).sum::<f64>() + 1.0;
        self.returned.lock().unwrap().push(f);
        SingleObjective::try_from(f).unwrap()
    }
}

fn main() {
    let mut bad = 0;
    for seed in 0..8u64 {
        let problem = Sphere { returned: Mutex::new(Vec::new()) };
        let config = ils::real_ils::<Sphere>(
            ils::RealProblemParameters { ls_params: ls::RealProblemParameters { n_neighbors: 3, deviation: 0.3 }, ls_condition: LessThanN::iterations(3) },
            LessThanN::iterations(5),
        ).unwrap();
        let state = config.optimize_with(&problem, |state| { state.insert_evaluator(Sequential::<Sphere>::new()); state.insert(Random::new(seed)); Ok(()) }).unwrap();
        let min = problem.returned.lock().unwrap().iter().cloned().fold(f64::INFINITY, f64::min);
        let best = state.best_objective_value().unwrap().value();
        println!("seed {seed}: best reported {best}, minimum returned {min}");
        if best != min { bad += 1; }
    }
    if bad == 0 { println!("DEMO-PASS") } else { println!("DEMO-FAIL ({bad} of 8 seeds)"); std::process::exit(1) }
}
