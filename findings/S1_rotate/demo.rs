// Demonstration for C04 / S1: Populations::rotate(n) on the real code.
// Run: copy to <repo>/examples/s1_rotate.rs and `cargo run --offline --example s1_rotate`.
use mahf::{state::common::Populations, Individual, Problem, SingleObjective};

struct P;
impl Problem for P {
    type Encoding = Vec<u8>;
    type Objective = SingleObjective;
    fn name(&self) -> &str { "P" }
}
fn pop(tag: u8) -> Vec<Individual<P>> { vec![Individual::new_unevaluated(vec![tag])] }
fn tags(p: &Populations<P>) -> Vec<u8> {
    (0..p.len()).rev().map(|d| p.peek(d)[0].solution()[0]).collect() // bottom .. top
}

fn main() {
    // (a) rotating the top 2 of [1, 2, 3] must give [1, 3, 2]; two rotations must restore the order
    let mut s = Populations::<P>::new();
    for t in [1, 2, 3] { s.push(pop(t)); }
    s.rotate(2);
    println!("rotate(2) on [1,2,3] -> {:?} (a plain stack gives [1, 3, 2])", tags(&s));
    let a_ok = tags(&s) == vec![1, 3, 2];
    s.rotate(2);
    let b_ok = tags(&s) == vec![1, 2, 3];
    println!("second rotate(2)     -> {:?} (must be [1, 2, 3] again)", tags(&s));
    // (b) the documented example: rotate(3) on a stack of height 3, three times
    let r = std::panic::catch_unwind(|| {
        let mut s = Populations::<P>::new();
        for t in [1, 2, 3] { s.push(pop(t)); }
        s.rotate(3); s.rotate(3); s.rotate(3);
        tags(&s)
    });
    println!("doc example rotate(3) x3 on height 3 -> {:?}", r.as_ref().map_err(|_| "PANIC"));
    let c_ok = matches!(r, Ok(ref v) if *v == vec![1, 2, 3]);
    if a_ok && b_ok && c_ok { println!("DEMO-PASS") } else { println!("DEMO-FAIL"); std::process::exit(1) }
}
