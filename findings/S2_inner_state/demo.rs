// Demonstration for C03 / S2: an error inside a scope body must not remove the caller's state.
// Run: copy to <repo>/examples/s2_inner_state.rs and `cargo run --offline --example s2_inner_state`.
use mahf::{
    state::common::{Evaluations, Iterations},
    Problem, SingleObjective, State,
};

struct P;
impl Problem for P {
    type Encoding = Vec<u8>;
    type Objective = SingleObjective;
    fn name(&self) -> &str { "P" }
}

fn main() {
    let mut state: State<P> = State::new();
    state.insert(Iterations(7));
    // a scope body that changes non-shadowed outer state, creates inner state, and then fails
    let r = state.with_inner_state(|inner| {
        inner.set_value::<Iterations>(8);
        inner.insert(Evaluations(1));
        Err(eyre::eyre!("the scope body fails"))
    });
    assert!(r.is_err());
    let kept = state.contains::<Iterations>();
    println!("after a failing scope body: caller still has Iterations: {kept}");
    let ok = kept && state.get_value::<Iterations>() == 8 && !state.contains::<Evaluations>();
    if ok { println!("DEMO-PASS") } else { println!("DEMO-FAIL: the caller's registry was dropped"); std::process::exit(1) }
}
