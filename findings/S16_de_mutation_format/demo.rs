// Demonstration for C13 / S16: "no operator ... errs on a valid population".  DEMutation documents the population format
// [base, 2y others]*; its check `!population.len() % size == 0` parses as `(!len) % size == 0` (bitwise NOT), which is true
// exactly when len IS a multiple of size (2^64 = 1 mod 3 and mod 5), so every population in the documented format is
// rejected and every malformed one is accepted.
use mahf::{
    components::mutation::de::DEMutation, problems::VectorProblem, state::common::Populations, Component, Individual,
    Problem, Random, SingleObjective, State,
};

struct P;
impl Problem for P {
    type Encoding = Vec<f64>;
    type Objective = SingleObjective;
    fn name(&self) -> &str { "P" }
}
impl VectorProblem for P {
    type Element = f64;
    fn dimension(&self) -> usize { 2 }
}

fn run(y: u32, len: usize) -> Result<usize, String> {
    let op: Box<dyn Component<P>> = DEMutation::new(y, 0.5).unwrap();
    let mut state: State<P> = State::new();
    state.insert(Random::new(0));
    state.insert(Populations::<P>::new());
    state.populations_mut().push((0..len).map(|i| Individual::new_unevaluated(vec![i as f64, 1.0])).collect());
    op.execute(&P, &mut state).map_err(|e| e.to_string())?;
    let n = state.populations().current().len();
    Ok(n)
}

fn main() {
    let mut ok = true;
    for (y, len, valid) in [(1, 3, true), (1, 6, true), (2, 5, true), (2, 10, true), (1, 4, false), (2, 7, false)] {
        let r = run(y, len);
        println!("DEMutation y={y} on {len} individuals (format {}): {:?}", if valid { "valid" } else { "invalid" }, r);
        ok &= if valid { r == Ok(len / (2 * y as usize + 1)) } else { r.is_err() };
    }
    if ok { println!("DEMO-PASS") } else { println!("DEMO-FAIL"); std::process::exit(1) }
}
