// Demonstration for C16 / S23 (known finding): "Every shipped heuristic template, given valid parameters, runs to its termination
// condition without error".  `real_iwo` documents `final_deviation <= initial_deviation` and rejects exactly those parameters.
use mahf::{conditions::LessThanN, heuristics::iwo, problems::{LimitedVectorProblem, VectorProblem}, Problem, SingleObjective};

struct S;
impl Problem for S { type Encoding = Vec<f64>; type Objective = SingleObjective; fn name(&self) -> &str { "S" } }
impl VectorProblem for S { type Element = f64; fn dimension(&self) -> usize { 2 } }
impl LimitedVectorProblem for S { fn domain(&self) -> Vec<std::ops::Range<f64>> { vec![-1.0..1.0; 2] } }

fn main() {
    let params = |initial: f64, fin: f64| iwo::RealProblemParameters { initial_population_size: 3, max_population_size: 6, min_number_of_seeds: 0, max_number_of_seeds: 3, initial_deviation: initial, final_deviation: fin, modulation_index: 2 };
    let documented = iwo::real_iwo::<S>(params(1.0, 0.1), LessThanN::iterations(5));
    let undocumented = iwo::real_iwo::<S>(params(0.1, 1.0), LessThanN::iterations(5));
    println!("documented (final <= initial): {}", match &documented { Ok(_) => "accepted".to_string(), Err(e) => format!("REJECTED: {e}") });
    println!("undocumented (final > initial): {}", if undocumented.is_ok() { "accepted" } else { "rejected" });
    if documented.is_ok() { println!("DEMO-PASS") } else { println!("DEMO-FAIL"); std::process::exit(1) }
}
