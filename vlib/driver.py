"""./check <ID> [--tier quick|thorough]   |   ./check replay <file>   |   ./check setup"""
import json
import os
import re
import shutil
import sys
import time

from . import kani_runner, verus_runner
from .props import PROPS

VERIF = os.path.dirname(os.path.dirname(os.path.abspath(__file__)))


def load_findings():
    p = os.path.join(VERIF, "known_findings.json")
    if not os.path.isfile(p):
        return []
    return json.load(open(p)).get("findings", [])


def harness_meta(files):
    """Parse `/// @verif k=v ...` lines directly above harness fns."""
    meta = {}
    for f in files:
        txt = open(os.path.join(VERIF, f)).read()
        for m in re.finditer(r"((?:[ \t]*///[^\n]*\n)*)[ \t]*#\[cfg_attr\(kani,\s*kani::proof(?:_for_contract\(([^)]*)\))?\)\](?:[^{;]*?)pub fn (\w+)\s*\(\)", txt):
            doc, contract_of, name = m.group(1), m.group(2), m.group(3)
            d = {"tier": "quick", "file": f}
            if contract_of:
                d["contract_of"] = contract_of
            for mm in re.finditer(r"@verif\s+(.*)", doc):
                for kv in re.finditer(r"(\w+)=(\"[^\"]*\"|\S+)", mm.group(1)):
                    d[kv.group(1)] = kv.group(2).strip('"')
            meta[name] = d
    return meta


def scan_assumptions(paths):
    """Mechanical scan for trusted constructs in framework files (reported, never hidden)."""
    pats = ["assume(", "assume_specification", "external_body", "admit(", "kani::stub", "unsafe ", "external_type_specification",
            "external_trait_specification", "uninterp", "axiom"]
    out = {}
    for p in paths:
        fp = os.path.join(VERIF, p)
        if not os.path.isfile(fp):
            continue
        txt = open(fp).read()
        for pat in pats:
            n = txt.count(pat)
            if n:
                out[f"{p}:{pat.strip()}"] = n
    return out


def check_property(pid, tier, seed):
    t0 = time.time()
    spec = PROPS[pid]
    findings = [f for f in load_findings() if f["property"] == pid and f.get("status", "known") == "known"]
    obligations = []     # dict(name, engine, status, detail, time_s, bound)
    tool_errors = []
    trusted, rewrites, cmds, assumptions_scan_paths = [], [], [], []
    functions_under_contract = []
    samples = []
    scratch = os.path.join(os.environ.get("VERIF_SCRATCH", "/var/tmp"), f"mahf-verif-verus.{os.getpid()}")
    solver_time = 0.0
    by_backend = {"verus": 0, "kani_triple": 0, "kani_contract": 0}
    vac = [0, 0]
    try:
        # ------------------------------------------------------------------ Verus units
        for u in spec.get("verus", []):
            if u.get("tier", "quick") == "thorough" and tier != "thorough":
                continue
            uname = f"{pid}/verus/{u['name']}"
            r = verus_runner.run_unit(uname, os.path.join(VERIF, u["template"]), scratch,
                                      rlimit=u.get("rlimit", 30), must_fail=u.get("must_fail", ()),
                                      vacuity=u.get("vacuity", True))
            cmds.append(r.cmd.replace(scratch, "<scratch>"))
            assumptions_scan_paths += [u["template"]] + r.includes
            trusted += [f"verus preamble (trusted mirror / assumed specs): {i}" for i in r.includes]
            rewrites += [f"{u['name']}: {x}" for x in r.rewrites]
            solver_time += r.smt_ms / 1000.0
            vac[0] += r.vacuity_ok
            vac[1] += r.vacuity_total
            if r.tool_error:
                tool_errors.append(f"{uname}: {r.tool_error}")
                continue
            expected = set(u.get("expect", []))
            got = set(o["name"].split("/", 3)[-1] for o in r.obligations)
            missing = expected - got
            if missing:
                tool_errors.append(f"{uname}: expected obligations missing: {sorted(missing)}")
            for o in r.obligations:
                obligations.append(dict(name=o["name"], engine="verus", status=o["status"], detail=o["detail"],
                                        time_s=(o["time_ms"] or 0) / 1000.0, bound=None, kind=o["kind"]))
                by_backend["verus"] += 1
                if o["kind"] == "extracted":
                    functions_under_contract.append(o["name"].split("/", 3)[-1])
            if r.obligations:
                samples.append({"obligation": r.obligations[min(1, len(r.obligations) - 1)]["name"], "engine": "verus",
                                "contract_source": u["template"], "status": r.obligations[min(1, len(r.obligations) - 1)]["status"],
                                "written_out": getattr(r, "sample", None)})
        # ------------------------------------------------------------------ Kani units
        for k in (spec.get("kani", []) if os.environ.get("VERIF_ENGINES", "") not in ("verus", "native") else []):
            inject = k.get("inject", ())
            meta = harness_meta(list(k["files"]) + [i["file"] for i in inject])
            sel = [n for n, d in meta.items() if d["tier"] == "quick" or tier == "thorough"]
            if not sel:
                continue
            kr = kani_runner.run([os.path.join(VERIF, f) for f in k["files"]], sel,
                                 annotations=k.get("annotations", ()), use_map_shim=k.get("map_shim", False),
                                 map_shim_files=k.get("map_shim_files", ()),
                                 timeout_s=k.get("timeout_s", 2400) if tier == "quick" else 28800,
                                 harness_timeout=k.get("harness_timeout", "900s") if tier == "quick" else "7200s",
                                 extra_args=k.get("extra_args", ()), inject=inject,
                                 jobs=(k.get("thorough_jobs") if tier == "thorough" else k.get("jobs")))
            cmds.append(re.sub(r"/var/tmp/[^ ]*", "<scratch>/target", kr.cmd))
            assumptions_scan_paths += k["files"] + ["shim/harness_support.rs"]
            solver_time += sum((r.time_s or 0) for r in kr.results.values())
            if kr.tool_error:
                tool_errors.append(f"{pid}/kani: {kr.tool_error}")
                continue
            for n in sel:
                d = meta[n]
                r = kr.results.get(n)
                oname = f"{pid}/kani/{d.get('anchor', n)}/{n}"
                if r is None:
                    tool_errors.append(f"{oname}: harness did not run")
                    continue
                status = {"success": "discharged", "failed": "refuted", "undecided": "undecided"}[r.status]
                detail = " | ".join(f"{c} @ {loc}" for c, loc in r.failed_checks)
                if r.status == "failed" and r.unwinding_failure and not d.get("termination"):
                    nonunw = [c for c in r.failed_checks if "unwinding assertion" not in c[0]]
                    if not nonunw:
                        status = "undecided"
                        detail = "unwinding assertion failed (harness bound too small): " + detail
                if r.status == "success" and r.covers and r.covers[0] != r.covers[1]:
                    status = "error"
                    detail = f"VACUITY: only {r.covers[0]} of {r.covers[1]} cover properties satisfied"
                eng = "kani_contract" if d.get("contract_of") else "kani_triple"
                by_backend[eng] += 1
                if r.covers:
                    vac[0] += r.covers[0]
                    vac[1] += r.covers[1]
                obligations.append(dict(name=oname, engine=eng, status=status, detail=detail, time_s=r.time_s,
                                        bound=d.get("bound"), kind="harness", harness=n, files=k["files"],
                                        playback=r.playback, raw=r.raw, failed_checks=r.failed_checks,
                                        termination=bool(d.get("termination")), annotations=k.get("annotations", ()),
                                        inject=inject))
                if d.get("anchor"):
                    functions_under_contract.append(d["anchor"])
                for s in r.stubs:
                    trusted.append(f"kani stub: {s}")
            if k.get("map_shim"):
                trusted.append("std HashMap/HashSet replaced by association list with the same interface (shim/verif_map.rs) under cfg(kani)")
            first = next((o for o in obligations if o["engine"].startswith("kani")), None)
            if first:
                samples.append({"obligation": first["name"], "engine": first["engine"], "bound": first["bound"],
                                "harness_source": first["files"], "status": first["status"],
                                "written_out": _harness_text(first.get("files", []), first.get("harness"))})
        # ------------------------------------------------------------------ native bounded stand-ins
        for nb in (spec.get("native", []) if os.environ.get("VERIF_ENGINES", "") != "verus" else []):
            t1 = time.time()
            res = kani_runner.native_bounded([os.path.join(VERIF, f) for f in nb.get("files", [])], list(nb["harnesses"]),
                                             inject=nb.get("inject", ()))
            cmds.append("cargo build --offline --example verif_replay (RUSTFLAGS=--cfg verif_replay); <scratch>/verif_replay <harness>")
            for n, meta_n in nb["harnesses"].items():
                ok, outp = res.get(n, (None, "not run"))
                status = "discharged" if ok else ("refuted" if ok is False else "error")
                # every failing case the harness prints is one failed check (known findings are keyed on them)
                ce = [l.strip() for l in outp.split("\n") if l.startswith("COUNTEREXAMPLE")]
                obligations.append(dict(name=f"{pid}/native_bounded/{meta_n.get('anchor', n)}/{n}", engine="native_bounded",
                                        status=status, detail=outp[:3000] if status != "discharged" else "", time_s=None,
                                        bound=meta_n["bound"], kind="harness", harness=n, files=nb.get("files", []),
                                        failed_checks=[(l, "") for l in ce] or [(outp[-300:], "")], inject=nb.get("inject", ()), native=True))
                by_backend["native_bounded"] = by_backend.get("native_bounded", 0) + 1
                functions_under_contract.append(meta_n.get("anchor", n))
            solver_time += 0
    finally:
        shutil.rmtree(scratch, ignore_errors=True)

    # ---------------------------------------------------------------------- verdicts
    violations, known_lines, undecided = [], [], []
    for o in obligations:
        if o["status"] == "discharged":
            continue
        if o["status"] in ("undecided", "error"):
            undecided.append(o)
            continue
        # refuted: known finding?
        kf = _match_finding(o, findings)
        if kf:
            known_lines.append(f"KNOWN-FINDING: property={pid} {kf['what']} [{o['name']}]")
            o["status"] = "known-finding"
            continue
        violations.append(o)
    n_total = len(obligations)
    n_disch = sum(1 for o in obligations if o["status"] == "discharged")
    min_ob = spec.get("min_obligations", {}).get(tier, 1)
    if os.environ.get("VERIF_ENGINES"):
        min_ob = 1   # partial run (development aid): not a registered check
    if n_total < min_ob and not tool_errors:
        tool_errors.append(f"{pid}: only {n_total} obligations generated, expected at least {min_ob}")

    # replay files for violations.  A Kani counterexample that was replayed natively on the real code and did NOT fail
    # there is a disagreement between the verifier's model and the real semantics (measured: Kani 0.68 / CBMC 6.11 evaluate
    # `f64 % f64` as IEEE remainder, not Rust's fmod): the obligation is then UNDECIDED (exit 2), never an alarm.
    vio_lines, kept = [], []
    for o in violations:
        path, suffix, repro = write_replay(pid, o)
        if repro is False:
            o["status"] = "undecided"
            o["detail"] = ("counterexample does not fail when replayed natively on the real code (verifier model mismatch "
                           f"suspected; replay file {path}) :: " + o["detail"])
            undecided.append(o)
            continue
        kept.append(o)
        vio_lines.append(f"VIOLATION property={pid} replay={path}{suffix}")
    violations = kept

    # ---------------------------------------------------------------------- evidence
    bounded = [{"obligation": o["name"], "bound": o["bound"]} for o in obligations if o.get("bound")]
    all_unbounded = not bounded
    from .manifest_text import TEXT as _MT
    claimed = _MT[pid]["category"]      # single source: the level claimed in MANIFEST.json
    if claimed == "proof" and not violations and not (all_unbounded and n_disch == n_total):
        # a proof-level claim needs every obligation unbounded and discharged; anything else is an error of the unit table
        tool_errors.append(f"{pid}: claimed level 'proof' but {len(bounded)} bounded / {n_total - n_disch} undischarged obligations")
    level = claimed
    cov = {
        "obligations": n_total,
        "discharged": n_disch,
        "checker_cmd": " ; ".join(dict.fromkeys(cmds)) or "(none)",
        "trusted_base": sorted(set(trusted + spec.get("trusted", []))),
        "explanation": spec["explanation"],
        "functions_under_contract": sorted(set(functions_under_contract)),
        "by_backend": by_backend,
        "bounded": bounded,
        "solver_time_s": round(solver_time, 2),
        "extraction_rewrites": rewrites,
        "assumptions_scan": scan_assumptions(sorted(set(assumptions_scan_paths))),
        "vacuity_probes": {"refuted_or_covered": vac[0], "total": vac[1]},
        "known_findings_matched": [l for l in known_lines],
        "undecided": [{"obligation": o["name"], "why": o["detail"][:300]} for o in undecided],
        "tool_errors": tool_errors,
        "uncovered_clauses": spec.get("uncovered", []),
        "samples": samples + [{"obligation": o["name"], "status": o["status"], "engine": o["engine"],
                               "bound": o.get("bound")} for o in obligations[:6]],
        "obligation_list": [{"name": o["name"], "engine": o["engine"], "status": o["status"],
                             "bound": o.get("bound"), "time_s": o.get("time_s")} for o in obligations],
        "exhaustive": False,
    }
    ev = {
        "property_id": pid, "tier": tier, "seed": seed, "level": level, "coverage": cov,
        "assumptions": sorted(set(spec.get("assumptions", []) + trusted)),
        "wall_s": round(time.time() - t0, 1),
        "violations": len(violations),
    }
    evdir = os.environ.get("VERIF_EVIDENCE_DIR", os.path.join(VERIF, "evidence"))
    if os.environ.get("VERIF_ENGINES") and "VERIF_EVIDENCE_DIR" not in os.environ:
        evdir = "/var/tmp/verif-partial-evidence"    # partial (development) runs never overwrite the registered evidence
    os.makedirs(evdir, exist_ok=True)
    with open(os.path.join(evdir, f"{pid}.json"), "w") as fh:
        json.dump(ev, fh, indent=1)

    for l in known_lines:
        print(l)
    for l in vio_lines:
        print(l)
    print(f"{pid} tier={tier}: obligations={n_total} discharged={n_disch} known-findings={len(known_lines)} "
          f"violations={len(violations)} undecided={len(undecided)} tool-errors={len(tool_errors)} "
          f"wall={ev['wall_s']}s")
    if violations:
        return 1
    if tool_errors or undecided:
        for e in tool_errors:
            print("ERROR " + e[:1500])
        for o in undecided:
            print(f"ERROR undecided obligation {o['name']}: {o['detail'][:500]}")
        return 2
    return 0


def _harness_text(files, name):
    """Source text of one harness function (for the evidence `samples`)."""
    for f in files:
        try:
            txt = open(os.path.join(VERIF, f)).read()
        except Exception:
            continue
        m = re.search(r"((?:[ \t]*///[^\n]*\n)*[^\n]*\n?[ \t]*pub fn " + re.escape(name or "") + r"\s*\(\)[^\n]*\n(?:.*\n){0,25})", txt)
        if m:
            return m.group(1)[:1500]
    return None


def _match_finding(o, findings):
    """A refuted obligation is a known finding iff the obligation name matches and EVERY failed check is
    covered by the entry's `checks` substrings (so a different failure of the same obligation still alarms)."""
    for f in findings:
        if f["obligation"] != o["name"]:
            continue
        if o["engine"] == "verus":
            msgs = [m.strip() for m in o["detail"].split(" | ") if m.strip()]
            norm = [re.sub(r"@line \d+", "", m) for m in msgs]
            if all(any(c in m for c in f["checks"]) for m in norm):
                return f
        else:
            checks = [c for c, _ in o.get("failed_checks", [])]
            if checks and all(any(c in chk for c in f["checks"]) for chk in checks):
                return f
    return None


def write_replay(pid, o):
    d = os.path.join(os.environ.get("VERIF_REPLAY_DIR", os.path.join(VERIF, "replays")), pid)
    os.makedirs(d, exist_ok=True)
    fn = re.sub(r"[^A-Za-z0-9_.-]+", "_", o["name"]) + ".json"
    path = os.path.join(d, fn)
    rec = {"property": pid, "obligation": o["name"], "engine": o["engine"], "verifier_output": o["detail"],
           "bound": o.get("bound")}
    suffix = " no-failing-input-found"
    not_reproduced = False
    if o["engine"] == "native_bounded":
        rec["harness"] = o["harness"]
        rec["harness_files"] = o["files"]
        rec["inject"] = list(o.get("inject", ()))
        rec["values"] = []
        rec["native_replay"] = {"reproduced": True, "output": o["detail"][-3000:]}
        suffix = ""   # the enumeration harness prints the failing case itself and ran on the real code
    elif o["engine"].startswith("kani"):
        rec["harness"] = o["harness"]
        rec["harness_files"] = o["files"]
        rec["inject"] = list(o.get("inject", ()))
        rec["values"] = o.get("playback")
        rec["raw"] = o.get("raw", "")[-6000:]
        if o.get("playback") is not None or o.get("termination"):
            vals = o.get("playback") or []
            repro, out = kani_runner.native_replay([os.path.join(VERIF, f) for f in o["files"]], o["harness"], vals,
                                                   inject=o.get("inject", ()))
            rec["native_replay"] = {"reproduced": repro, "output": out[-3000:]}
            if repro:
                suffix = ""
            elif repro is False and o.get("playback") is not None and not o.get("termination"):
                not_reproduced = True
        else:
            # Kani gave no concrete values (playback timed out / nothing printed): the failure may not depend on the inputs at
            # all.  Try the all-zero input natively; a native failure is a genuine replay, a pass proves nothing.
            repro, out = kani_runner.native_replay([os.path.join(VERIF, f) for f in o["files"]], o["harness"], [],
                                                   inject=o.get("inject", ()))
            if repro:
                rec["values"] = []
                rec["native_replay"] = {"reproduced": True, "output": out[-3000:], "note": "all-zero input (Kani printed no values)"}
                suffix = ""
    else:
        rec["note"] = ("Verus gives no counterexample; the failed obligation and the verifier's diagnostics are "
                       "recorded.  Replay = re-run the obligation.")
    with open(path, "w") as fh:
        json.dump(rec, fh, indent=1)
    return path, suffix, (False if not_reproduced else None)


def replay(path):
    rec = json.load(open(path))
    print(f"replay of {rec['obligation']} (property {rec['property']})")
    if (rec["engine"].startswith("kani") or rec["engine"] == "native_bounded") and rec.get("values") is not None:
        repro, out = kani_runner.native_replay([os.path.join(VERIF, f) for f in rec["harness_files"]],
                                               rec["harness"], rec["values"], inject=rec.get("inject", ()))
        print(out[-3000:])
        print("REPRODUCED" if repro else ("NOT-REPRODUCED" if repro is False else "REPLAY-ERROR"))
        return 1 if repro else 0
    print("no concrete input recorded; verifier output was:")
    print(rec.get("verifier_output", ""))
    return 0


def main(argv):
    if len(argv) >= 2 and argv[1] == "setup":
        kani_runner.ensure_kani_cache()
        kani_runner.ensure_replay_cache()
        print("setup ok")
        return 0
    if len(argv) >= 2 and argv[1] == "selftest":
        from . import selftest
        rest = [a for a in argv[2:] if not a.startswith("--")]
        return selftest.run(rest, verus_only="--verus-only" in argv)
    if len(argv) >= 3 and argv[1] == "replay":
        return replay(argv[2])
    pid = argv[1]
    tier = os.environ.get("VERIF_TIER", "quick")
    if "--tier" in argv:
        tier = argv[argv.index("--tier") + 1]
    seed = int(os.environ.get("VERIF_SEED", "0") or 0)
    if pid not in PROPS:
        print(f"ERROR unknown property {pid}")
        return 2
    return check_property(pid, tier, seed)
