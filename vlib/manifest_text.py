"""Per-property manifest text (level claimed, technique, trusted base)."""
from .props import MANIFEST_TEXT as _BASE

TEXT = dict(_BASE)

TEXT["C01"] = dict(
    category="other",
    technique="Kani/CBMC Hoare triples per registry operation against a stack-of-maps model view, enumerated shapes",
    text=("Every public registry operation (insert, remove, lookups, value get/set, get_mut, entry API incl. occupied/vacant "
          "operations, scope push/pop) is checked on the REAL StateRegistry as a Hoare triple against the model operation on an "
          "abstract stack-of-maps view, from every enumerated shape (which of two types exists in which scope; depth <= 2 in "
          "quick, <= 3 in thorough) with fully symbolic payloads; postconditions cover the whole view (frame). Bounded by shape; "
          "histories within the bound follow by induction over operations."),
    note=("Trusted: std HashMap/HashSet replaced by an association list with the same interface under cfg(kani) (the only place "
          "where verified text differs from the text that runs; native replay uses real std), RefCell, better_any downcasts. "
          "Verus is not applicable to the registry bodies (recursion through fn items, TypeId, dyn+supertraits; DESIGN fact 19). "
          "All generated triples are additionally run natively with three concrete payload assignments (bounded stand-in, labelled "
          "native_bounded): it decides changed code on which CBMC does not finish (a change that routes insert through the entry "
          "API costs 27 GB per solver run)."),
)
TEXT["C02"] = dict(
    category="other",
    technique="Verus contract on the real State::holding against the C01 registry contracts and an arbitrary closure",
    text=("State::holding is extracted verbatim and proved (unbounded: any scope depth, any position of T, any closure that leaves "
          "the private marker in place) to run the closure on (T, state-without-T) and to put T back into the scope it came from "
          "with the value the closure left, removing the marker, on success AND on error. The registry operations it calls are "
          "used through their C01 contracts only."),
    note=("Trusted: typed stack-of-maps mirror of find_mut/insert/remove (= C01 obligations), derive(Deref/DerefMut) mirror. "
          "Not covered here: reader/writer conflict mapping and the unsafe multi-borrow (planned Kani units), RefCell's own counter."),
)
TEXT["C06"] = dict(
    category="other",
    technique="Kani/CBMC Hoare triple on the real Sequential::evaluate with a call-logging objective function",
    text=("The sequential evaluator kernel is checked for population sizes 0, 1 and 3 over all tags and any mix of evaluated / "
          "unevaluated individuals: the objective function is invoked exactly once per individual, in order; solutions and order "
          "are kept; every individual ends evaluated with f(solution). Partial: the counter clause, the missing-evaluator error, "
          "the parallel evaluator and the whole-run equality are NOT decided (see uncovered_clauses)."),
    note="Bounded by population size <= 3. PopulationEvaluator::execute is out of reach of both verifiers (DESIGN §4 C06).",
)
TEXT["C10"] = dict(
    category="other",
    technique="Verus contracts on the real Not/And/Or/EveryN/ChangeOf methods against abstract operands, lenses and equality measures",
    text=("Not (all phases), And/Or (init, require), EveryN::evaluate and ChangeOf::evaluate are extracted verbatim and proved for "
          "ARBITRARY operands / lenses / equality checkers: not evaluates its operand exactly once and negates; every-n is true "
          "exactly on multiples of n; change-of is true exactly when nothing was reported yet or the checker says the observed "
          "value is NOT equal to the last reported one, and remembers the value exactly then. Unbounded."),
    note=("Trusted: abstract-children mirror, guard-local mirror for ChangeOf (two live guards). NOT covered: And/Or::evaluate "
          "(closure capturing &mut state), LessThanN, OptimumReached, RandomChance, the 'exactly n passes' composition."),
)
TEXT["C11"] = dict(
    category="other",
    technique="Verus contracts on the real selection() driver and operator bodies against kernel contracts",
    text=("selection() is proved (unbounded) to leave the stack incl. the source population untouched and push exactly one "
          "population of exact copies of what the (arbitrary) operator selected. LinearRank::select is proved to hand the weighted "
          "sampler weights in which a better objective never gets a smaller weight (the sampler's precondition), from the contract "
          "of reverse_rank. RandomWithoutRepetition::select errs exactly when there are too few individuals and otherwise returns "
          "the requested number of distinct members."),
    note=("Trusted: reverse_rank / weighted sampler / choose_multiple mirrors (std/rand meaning assumed; kernels planned as Kani "
          "units), closed-list iterator rewrites. Not covered: ExponentialRank, RouletteWheel, SUS, Tournament, DE selections."),
)
TEXT["C12"] = dict(
    category="other",
    technique="Verus contracts on the real replacement() driver and MuPlusLambda::replace + Kani/CBMC Hoare triples on the replace kernels",
    text=("replacement() is proved (unbounded) to consume the two top populations and push replace(below, top) for an arbitrary "
          "operator, rest of the stack untouched. MuPlusLambda::replace is proved (unbounded: all sizes, all mu) to return the "
          "sorted mu best of parents ++ offspring: a rearrangement split kept ++ discarded with no discarded individual better than "
          "a kept one. The kernels DiscardOffspring, Generational, Merge, MuPlusLambda, RandomReplacement are also checked "
          "bit-precisely by Kani at enumerated sizes (<= 2+2) over all tags and objective values (ties, +inf)."),
    note=("Trusted: assumed std meaning of Vec::extend / sort_unstable_by_key / truncate in the Verus unit (checked against real std by "
          "the bounded Kani triples). KeepBetterAtIndex is out of reach of both verifiers (ensure! => Kani ICE; iterator chain => Verus "
          "rejects) and is covered ONLY by a bounded native enumeration (native_bounded in the evidence, never counted as proved)."),
)
TEXT["C13"] = dict(
    category="other",
    technique="Kani/CBMC Hoare triples on the real functional helpers + Verus on parameter guards",
    text=("circular_swap/circular_swap2 and translocate_slice/translocate_slice2 (agreement, permutation, placement), uniform / "
          "multi-point / arithmetic / cycle crossover (length, position-wise parental genes, gene conservation, stated formula) and "
          "OptionalPair::from_pair are checked at concrete lengths (<= 4, thorough 5) over all contents and valid index tuples. "
          "SwapMutation::from_params is proved (Verus) to reject exactly num_swap < 2."),
    note=("Bounded by length. The recombination() driver (State-based, chunks + slice patterns) is out of reach of both verifiers and is "
          "covered ONLY by a bounded native run (native_bounded in the evidence, never counted as proved). Mutation components' execute "
          "bodies (State + RNG) are not covered."),
)
TEXT["C14"] = dict(
    category="other",
    technique="Kani/CBMC Hoare triples on the real BoundaryConstraint::constrain kernels, one coordinate",
    text=("Saturation: complete over all finite domains and coordinates (inside, unchanged-if-inside, idempotent). Toroidal and "
          "Mirror: concrete domains, coordinate symbolic within a large multiple of the width; termination by unwinding assertion; "
          "the bounds themselves and whole multiples of the width as separate concrete (replayable) harnesses. "
          "CompleteOneTailedNormalCorrection: only 'inside => unchanged, terminates without sampling'."),
    note="Toroidal/Mirror bounded by the listed domains and magnitude regime; sampler distribution and initialisation operators uncovered.",
)
TEXT["C15"] = dict(
    category="other",
    technique="Verus contracts on the real ExtractionRule/LogConfig/Logger execute methods against abstract triggers and extractors",
    text=("ExtractionRule::execute pushes the extracted entry iff its trigger evaluates true (and passes errors on); LogConfig::execute "
          "runs the rules in order into one step up to the first error; Logger::execute appends exactly one step (fired entries "
          "plus iteration count) iff something fired and nothing otherwise, with the configuration put back. Unbounded."),
    note=("Trusted: Step/Log/holding mirrors. Step::push de-duplication is a bounded Kani triple. The compressed-export kernel "
          "CompressedLog::from is out of reach of both verifiers and is covered ONLY by a bounded native enumeration (labelled "
          "native_bounded in the evidence, never counted as proved). NOT covered: JSON/CBOR/RON encoding/decoding, configuration export."),
)
TEXT["C17"] = dict(
    category="other",
    technique="Verus contract on the real ExponentialAnnealingAcceptance::execute (decision structure) + Kani on GeometricCooling::map",
    text=("The acceptance step is proved (unbounded) to reduce the two top single-individual populations to one holding either the "
          "candidate (top) or the current solution (below) whole, rest untouched, and to ALWAYS keep a candidate that is at least as "
          "good as the current solution (through the order on SingleObjective alone, for every objective value incl. +inf). "
          "GeometricCooling::map is value * alpha bit-exactly for all f64 (complete)."),
    note=("Floats are uninterpreted in Verus, and Kani cannot enter the State-based body: 'never as T -> 0', 'always as T grows "
          "without bound' and the acceptance probability exp(-(f_cand - f_cur)/T) are covered ONLY by bounded native runs (a grid with "
          "exact rules where exp() is exactly 0 or 1, and acceptance frequencies over 4000 seeds per cell; labelled native_bounded in "
          "the evidence, never counted as proved)."),
)

TEXT["C08"] = dict(
    category="other",
    technique="Verus contracts on the real Configuration::optimize_with / optimize + bounded native determinism runs of the shipped templates",
    text=("Configuration::optimize_with and optimize are extracted verbatim and proved (unbounded, for an arbitrary user initialiser, "
          "configuration and problem): the state handed to run() is exactly the state the initialiser left if it contains a generator "
          "- a generator supplied by the user is never replaced - and otherwise that state plus ONE default generator; optimize starts "
          "from Log + default generator + Populations + the supplied evaluator under the Global identifier. The remaining clauses are "
          "2-safety / schedule properties that no function-level contract decides: they are covered ONLY by a bounded native run "
          "(19 shipped templates x 2 seeds: two sequential runs, a cloned configuration and three parallel-evaluator runs must give "
          "the identical final population stack, best individual, counters and log; generator and child-generator streams are "
          "deterministic in the seed and distinct)."),
    note=("Level 'other': everything except the 'never replaced' clause rests on a bounded native run (native_bounded in the evidence, never "
          "counted as proved); thread schedules are only those rayon happens to produce. Trusted: State::insert/contains mirror (C01 "
          "contracts), Configuration::run contract (C03 unit), Random::default() modelled as one unknown value per execution."),
    design_ref="DESIGN.md §6a (C08 was planned as not applicable; the contract-shaped clause turned out to be within Verus' reach)",
)

TEXT["C16"] = dict(
    category="other",
    technique="Verus contracts on the real Loop::execute / LessThanN::evaluate (exactly n passes) + bounded native whole runs of the shipped templates",
    text=("The clause 'performs exactly the requested number of iterations' is a consequence of contracts proved on the real code: "
          "Loop::execute re-initialises its condition, tests it before every pass and increments the iteration counter after every "
          "completed pass, LessThanN::evaluate is true exactly while the counter is below n, and the lemma "
          "lemma_bounded_loop_makes_exactly_n_passes composes them for an ARBITRARY body that leaves the counter alone (unbounded). "
          "That the bodies of the shipped templates complete without error, leave the population stack balanced (one population at the "
          "end) and keep the prescribed population size is a whole-run property of 21 compositions of dyn components: it is covered "
          "ONLY by bounded native runs (19 templates x (3 seeds x 15 + 30 seeds x {1,2,3,6} iterations); 36 parameter sets at the edges "
          "of what the constructors accept; the stack height recorded at every loop test through a probe wrapped around the "
          "termination condition). It fails for the two ILS templates (one more population on the stack per pass), recorded as a "
          "known finding."),
    note=("Level 'other'. Planned as not applicable (no function-level contract decides a whole run); the iteration-count clause turned "
          "out to be exactly the loop lemma already proved for C03/C10. Not covered: the two ACO templates, other instances / parameter sets than the "
          "ones run."),
    design_ref="DESIGN.md §6a",
)

TEXT["C18"] = dict(
    category="other",
    technique="Verus contracts on the real mapping() driver and Linear::execute + Kani on Linear::map + bounded native probed runs of the PSO template",
    text=("The inertia-weight clause is decided by contracts on the real code: Linear::execute is proved (unbounded, arbitrary lenses) to "
          "read the progress through its own input lens once, map it once and store the result once through its own output lens "
          "(the mapping() driver is re-verified in this unit), and Linear::map is (end - start) * value + start bit-exactly for every "
          "progress in [0, 1] at the weight pairs (0.9, 0.4) and (0.4, 0.9) (Kani). The other clauses (velocities within [-v_max, v_max], "
          "moved by exactly the new velocity, the stored weight scales the old velocity, personal best = best evaluated position and "
          "never worse, global best = best personal best, one entry per particle) live in State-based bodies built from multizip loops "
          "and f64 arithmetic and are covered ONLY by bounded native runs: the PSO components assembled as in the template with probes between them, and "
          "the shipped real_pso template itself (final-state memories for ordinary, social-only and cognitive-only swarms)."),
    note=("Level 'other'. Planned as not applicable; the interpolation clause turned out to be the mapping() contract already proved for "
          "C17 plus one float kernel. Everything else is native_bounded in the evidence, never counted as proved. Linear::map with "
          "symbolic weights does not finish in CBMC."),
    design_ref="DESIGN.md §6a",
)

TEXT["C19"] = dict(
    category="other",
    technique="Kani/CBMC Hoare triples on the real PheromoneMatrix kernel + bounded native runs of the ant-colony components on small TSP instances",
    text=("The matrix kernel is under contract: a fresh PheromoneMatrix holds the initial value everywhere, pm[i][j] reads and writes entry "
          "(i, j) alone, rows have `dimension` entries, and `*pm *= f` (the evaporation step of both updates) multiplies EVERY trail by f "
          "bit-exactly - checked by CBMC at dimension 2 (thorough: 3) over all finite entries for the factors {1, 0.5, 0.75, 0}. Tour "
          "generation (one greedy tour plus the requested number of sampled tours, each a permutation of all cities starting at city 0) "
          "and the ant-system / max-min updates (evaporate every trail, reinforce symmetrically exactly the rewarded tours' edges by an "
          "amount inversely proportional to tour length, trails finite, non-negative and - max-min - within the bounds) live in "
          "State-based bodies with iterator chains, powf and WeightedIndex sampling and are covered ONLY by bounded native runs, each "
          "update compared with an independently computed expectation."),
    note=("Level 'other'. Planned as not applicable; claimed thinly because the evaporation clause has a kernel-level contract. The native "
          "run exposed that MinMaxPheromoneUpdate let un-rewarded trails fall below the lower bound (repaired). A symbolic evaporation "
          "factor does not finish in CBMC (float multipliers)."),
    design_ref="DESIGN.md §6a",
)


# ---- session-3 refinements, applied to the assembled strings (each `old` must occur: a stale patch is an error)
_PATCHES = {
    "C05": [
        ("(as_solutions_mut, into_individuals, into_solutions) are Kani Hoare triples at sizes <= 2, hence level 'other'.",
         "(as_solutions_mut, into_individuals, into_solutions) are Kani Hoare triples at sizes <= 2, hence level 'other'; evaluate_with, solution_mut, set_objective, into_solution and the constructors are additionally complete loop-free Kani triples (they decide changed code Verus cannot enter)."),
        ("The clause about every step of every shipped heuristic is NOT decided (whole runs); listed under uncovered_clauses in the evidence.",
         "The clause about every step of every shipped heuristic is not decided by contracts; the FINAL state of whole runs of 19 shipped templates is checked by a bounded native run (native_bounded in the evidence, never counted as proved)."),
    ],
    "C06": [
        ("Kani/CBMC Hoare triple on the real Sequential::evaluate with a call-logging objective function",
         "Kani/CBMC Hoare triples on the real Sequential::evaluate and StateReq::require + Verus contract on PopulationEvaluator::require/init"),
        ("Partial: the counter clause, the missing-evaluator error, the parallel evaluator and the whole-run equality are NOT decided (see uncovered_clauses).",
         "PopulationEvaluator::require is extracted verbatim and proved (Verus, unbounded) to be Ok exactly if the population stack and the evaluator with the component's OWN identifier are present (with C03: a failed requirement means nothing executes); StateReq::require itself is a Kani triple. The counter clause (PopulationEvaluator::execute), the parallel evaluator and the whole-run equality 'reported evaluations = objective-function invocations' (19 shipped templates) are covered ONLY by bounded native runs; the latter fails for the two ILS templates, recorded as a known finding."),
        ("Bounded by population size <= 3. PopulationEvaluator::execute is out of reach of both verifiers (DESIGN §4 C06).",
         "Kani part bounded by population size <= 3. PopulationEvaluator::execute is out of reach of both verifiers (DESIGN §4 C06): bounded native stand-ins only (native_bounded in the evidence, never counted as proved)."),
    ],
    "C07": [
        ("Verus contract on the real BestIndividual::update over an abstract total order + Kani kernels",
         "Verus contracts on the real BestIndividual::update, BestIndividualUpdate::execute, ElitistArchive::update and ElitistArchiveIntoPopulation::execute over an abstract total order + Kani kernels"),
        ("Kernel harnesses (population minimum, elitist archive) are bounded Kani triples.",
         "ElitistArchive::update is proved (unbounded: any archive, population, capacity) to leave the sorted min(k, shown) best objective values of archive ++ population with no discarded value better than a kept one; BestIndividualUpdate::execute and ElitistArchiveIntoPopulation::execute are proved against those contracts (no duplicates re-inserted). Kernel harnesses (population minimum, elitist archive) are bounded Kani triples; 3-update archive histories and the whole-run clause 'reported best = minimum returned' (19 shipped templates) are bounded native runs (the latter exposed a defect of the ILS templates, repaired)."),
        ("Individual contracts (C05). Whole-run clause uncovered.",
         "Individual contracts (C05); assumed std meaning of extend_from_slice / sort_unstable_by_key / truncate. The composition over histories is mechanised too (lemma_k_best_composes / lemma_archive_history_step: the k best of (the k best of S) ++ P are the k best of S ++ P, for any implementation satisfying the update contract), so 'holds the k best it has been shown so far' is an invariant of every history; 3-update histories are additionally run on the real code (bounded)."),
    ],
    "C10": [
        ("NOT covered: And/Or::evaluate (closure capturing &mut state), LessThanN, OptimumReached, RandomChance, the 'exactly n passes' composition.",
         "LessThanN::evaluate (Verus, decision only: float division is uninterpreted) and the lemma 'a loop bounded by n makes exactly n passes' are part of the units. And/Or::evaluate (closure capturing &mut state), OptimumReached, RandomChance, the progress VALUE and whole loops (passes, tests, every-n) are covered ONLY by bounded native runs (native_bounded in the evidence, never counted as proved)."),
    ],
    "C11": [
        ("RandomWithoutRepetition::select errs exactly when there are too few individuals and otherwise returns the requested number of distinct members.",
         "RandomWithoutRepetition::select errs exactly when there are too few individuals and otherwise returns the requested number of distinct members. All / None / CloneSingle / FullyRandom::select are proved (unbounded) to return everything in order / nothing / an error unless exactly one individual and else the requested number of references to it / exactly the requested number of members. objective_bounds (in-place Kani function contract), proportional_weights (size 2, all values) and into_single_ref are Kani triples; reverse_rank and proportional_weights at sizes 0..4 are checked by a bounded native enumeration over a value grid (CBMC does not finish on reverse_rank's sort/group_by within 50 minutes)."),
        ("Not covered: ExponentialRank, RouletteWheel, SUS, Tournament, DE selections.",
         "ExponentialRank, RouletteWheel, SUS, Tournament, the DE selections and the IWO selection (sampling loops, float weights) are covered ONLY by a bounded native run of the real components over populations, counts and seeds (native_bounded in the evidence, never counted as proved); writing it exposed the ExponentialRank defect (repaired)."),
    ],
    "C12": [
        ("Verus contracts on the real replacement() driver and MuPlusLambda::replace + Kani/CBMC Hoare triples on the replace kernels",
         "Verus contracts on the real replacement() driver and the replace kernels + Kani/CBMC Hoare triples on the replace kernels"),
        ("The kernels DiscardOffspring, Generational, Merge, MuPlusLambda, RandomReplacement are also checked",
         "DiscardOffspring, Generational, Merge and RandomReplacement::replace are proved (unbounded) to return all parents / all offspring / their concatenation / min(mu, total) individuals that are a sub-multiset of parents ++ offspring. DiscardOffspring, Generational, Merge and MuPlusLambda are also checked"),
        ("assumed std meaning of Vec::extend / sort_unstable_by_key / truncate in the Verus unit",
         "assumed std/rand meaning of Vec::extend / into_iter().chain().collect() / shuffle / sort_unstable_by_key / truncate in the Verus units"),
    ],
    "C13": [
        ("Mutation components' execute bodies (State + RNG) are not covered.",
         "Mutation components, DE variation operators and the crossover components (State + RNG) are out of reach of both verifiers too and are covered ONLY by bounded native runs over seeds (native_bounded); writing them exposed four genuine defects (InversionMutation, InsertionMutation/translocate pre-condition, TranslocationMutation, DEMutation), all repaired."),
        ("and OptionalPair::from_pair are checked at concrete lengths (<= 4, thorough 5) over all contents and valid index tuples.",
         "and OptionalPair::from_pair are checked at concrete lengths (3 in the quick tier, up to 5 in the thorough tier where CBMC finishes) over all contents and valid index tuples, multi-point crossover also for parents of unequal length; where CBMC does not finish within 50 minutes (translocate and cycle crossover at length 4, the arithmetic formula over three symbolic floats) a bounded native enumeration of the kernels stands in."),
    ],
    "C14": [
        ("sampler distribution and initialisation operators uncovered.",
         "sampler distribution uncovered; the initialisation kernels and the initialisation / boundary-repair COMPONENTS are covered ONLY by bounded native runs (native_bounded); the initialization() driver is a Verus unit. Kani 0.68 / CBMC 6.11 do not evaluate `f64 % f64` like Rust (measured); no harnessed function uses it on the pinned tree, and a Kani counterexample that passes native replay is reported as undecided, not as a violation."),
    ],
    "C15": [
        ("NOT covered: JSON/CBOR/RON encoding/decoding, configuration export.",
         "JSON/CBOR decoding of the log export and the RON configuration export of 19 shipped templates (serialisable, clone identical, one-value parameter variations and structural variants differ, components named) are covered ONLY by bounded native runs; the latter exposed that to_ron failed for every lens-based configuration (repaired)."),
    ],
    "C17": [
        ("Verus contract on the real ExponentialAnnealingAcceptance::execute (decision structure) + Kani on GeometricCooling::map",
         "Verus contracts on the real ExponentialAnnealingAcceptance::execute (decision structure), mapping() and GeometricCooling::execute + Kani on GeometricCooling::map"),
        ("GeometricCooling::map is value * alpha bit-exactly for all f64 (complete).",
         "GeometricCooling::map is value * alpha bit-exactly for all f64 (complete); the mapping() driver is proved (unbounded, arbitrary lenses and mappings) to read its input once, map once and assign once through the output lens, and GeometricCooling::execute to use its own lens on both sides: together 'multiplies the temperature by its factor exactly once per execution'."),
    ],
}
for _pid, _lst in _PATCHES.items():
    _t = dict(TEXT[_pid])
    for _old, _new in _lst:
        _hit = [k for k in ("technique", "text", "note") if _old in _t.get(k, "")]
        assert _hit, f"stale manifest text patch for {_pid}: {_old[:60]}"
        for k in _hit:
            _t[k] = _t[k].replace(_old, _new)
    TEXT[_pid] = _t
