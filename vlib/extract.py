"""Mechanical extraction of real mahf items into a single Verus file, driven by a template.

Template directives (each on its own line, everything else is copied through):

  //@include <path under /verif>                 trusted preamble text, copied verbatim
  //@struct <file> :: <Name>                     struct/enum copied verbatim; attributes and doc comments
                                                 dropped; fields widened to `pub`
  //@implhdr <file> :: <impl header> [:: rehome] the real impl header up to and including `{`
                                                 (rehome: `impl<..> Trait<..> for Type<..>` -> `impl<..> Type<..>`)
  //@fn <file> :: <impl header | -> :: <name> [:: ret=<ident>] [:: novis] [:: proofname=<n>]
      <contract text: requires / ensures / decreases>
  //@loop <ordinal>
      <invariant / decreases text, spliced between loop header and `{`>
  //@hint before|after /<regex over one source line of the body>/
  //@hint before-each /<regex>/        (the text is inserted before EVERY matching line, at least one: used for the property
                                     assertions, anchored on the tail `Ok(..)` and on explicit `return Ok(..)` statements)
  //@hint start                      (ghost text at the very start of the body: entry-state snapshots, independent of statement order)
      <ghost text: assert / proof { } / let ghost>
  //@subst <key>                                  one of ALLOWED_SUBST, applied to the fn text
  //@endfn

Only the closed list of rewrites below is ever applied to executable text; each application is
counted and reported in the evidence file.  Anything unexpected raises AnchorError (exit 2).
"""
import os
import re

from . import rustlex
from .rustlex import AnchorError

REPO = os.environ.get("VERIF_REPO", "/repo")
VERIF = os.path.dirname(os.path.dirname(os.path.abspath(__file__)))

# The closed list of token substitutions allowed on executable text.
ALLOWED_SUBST = {
    # key: (regex, replacement, explanation)
    "mem_take": (r"\bstd::mem::take\(", "mem_take(",
                 "std::mem::take -> mirrored mem_take (assumed: returns old value, leaves Default)"),
    "wrap_err_str": (r"\.wrap_err\(\s*\"[^\"]*\"\s*\)", ".wrap_err_lit()",
                     ".wrap_err(\"literal\") -> .wrap_err_lit() (Verus has no &str->Display coercion in mirrors)"),
    "deref_call": (r"\.deref\(\)", ".deref_spec_exec()",
                   "Deref::deref() on Vec -> mirrored view function with the same result"),
    "ensure_macro": (r"\bensure!\(", "verif_ensure!(",
                     "eyre::ensure!(c, ..) -> verif_ensure!(c, ..) = if !(c) { return Err(Report::adhoc()) }"),
    "eyre_macro": (r"\beyre!\(", "verif_eyre!(", "eyre::eyre!(..) -> opaque Report::adhoc()"),
    "question_into": (r"\?;", "?;", "identity (placeholder, never counted)"),
    "self_ty_path": (r"\bSelf::", "Self::", "identity"),
    "neg_float": (r"(?<![\w)\]])-\s*(?=[a-zA-Z_(])", "f64_neg() * ",
                  "unused"),
    "tid_lifetime": (r"\s*\+\s*TidAble<'a>", "", "`T: CustomState<'a> + TidAble<'a>` -> `T: CustomState<'a>` (better_any bound has no verification content)"),
    "drop_lifetimes_a": (r"<'a>", "", "explicit lifetime argument <'a> dropped on mirrored traits without lifetime parameter"),
    "iter_named_self0": (r"\bfor\s+(\w+)\s+in\s+&self\.0\b", r"for \1 in it: self.0.iter()",
                         "`for x in &self.0` -> `for x in it: self.0.iter()` (same desugaring: <&Vec as IntoIterator>::into_iter "
                         "== iter(); `it:` is Verus' ghost name for the iterator)"),
    "iter_named_self0_iter": (r"\bfor\s+(\w+)\s+in\s+self\.0\.iter\(\)", r"for \1 in it: self.0.iter()",
                              "`for x in self.0.iter()` -> `for x in it: self.0.iter()` (`it:` is Verus' ghost name for the iterator)"),
    "iter_named_rules": (r"\bfor\s+(\w+)\s+in\s+&self\.rules\b", r"for \1 in it: self.rules.iter()",
                         "`for x in &self.rules` -> `for x in it: self.rules.iter()` (same desugaring; `it:` is Verus' ghost iterator name)"),
    "iter_named_elitists": (r"\bfor\s+(\w+)\s+in\s+archive\.elitists\(\)", r"for \1 in it: archive.elitists().iter()",
                            "`for x in archive.elitists()` (a slice) -> `for x in it: archive.elitists().iter()` (same desugaring: "
                            "<&[T] as IntoIterator>::into_iter == iter(); `it:` is Verus' ghost iterator name)"),
    "iter_ref_vec": (r"\bfor\s+(\w+)\s+in\s+&self\.0\b", r"for \1 in self.0.iter()",
                     "`for x in &self.0` -> `for x in self.0.iter()` (same desugaring: <&Vec as IntoIterator>::into_iter == iter())"),
    "iter_ref_field": (r"\bfor\s+(\w+)\s+in\s+&self\.(\w+)\b", r"for \1 in self.\2.iter()",
                       "`for x in &self.f` -> `for x in self.f.iter()` (same desugaring)"),
    "iter_ref_local": (r"\bfor\s+(\w+)\s+in\s+&(\w+)\b", r"for \1 in \2.iter()",
                       "`for x in &v` -> `for x in v.iter()` (same desugaring)"),
    "vec_range_index_mut": (r"(\bself\.\w+)\[([^\]\n]*\.\.[^\]\n]*)\]", r"\1.as_mut_slice()[\2]",
                            "`vec[a..b]` in a mutable place -> `vec.as_mut_slice()[a..b]` (std: Vec's IndexMut<Range> is "
                            "`&mut (**self)[range]`, deref_mut == as_mut_slice; vstd specifies the slice form only)"),
    "drop_local_marker": (r"(?s)#\[derive\(better_any::Tid\)\]\s*struct Marker<T>\(PhantomData<fn\(\) -> T>\);\s*impl<'a, T: TidAble<'a>> CustomState<'a> for Marker<T> \{\}",
                          "",
                          "function-local item definitions (`struct Marker<T>` + its `CustomState` impl) moved out of the body "
                          "into the unit's preamble mirror (items are not executable statements)"),
    "iter_cloned_collect": (r"(\w+)\.into_iter\(\)\.cloned\(\)\.collect\(\)", r"iter_cloned_collect(\1)",
                            "`v.into_iter().cloned().collect()` -> mirrored `iter_cloned_collect(v)` (assumed std meaning: the vector of "
                            "element-wise clones, same length and order; Verus rejects iterator adapter chains)"),
    "choose_multiple_collect": (r"(\w+)\.choose_multiple\((\w+), (\w+)\)\.collect\(\)", r"choose_multiple_collect(\1, \2, \3)",
                                "`s.choose_multiple(rng, n).collect()` -> mirrored `choose_multiple_collect(s, rng, n)` (assumed rand "
                                "meaning: min(n, len) DISTINCT members of the slice)"),
    "iter_max_cloned_or": (r"(\w+)\.iter\(\)\.max\(\)\.cloned\(\)\.unwrap_or\((\w+)\)", r"iter_max_or(&\1, \2)",
                           "`v.iter().max().cloned().unwrap_or(d)` -> mirrored `iter_max_or(&v, d)` (assumed std meaning: the maximum "
                           "element, or d for an empty vector)"),
    "iter_map_collect": (r"(\w+)\.iter\(\)\.map\((\|.*)\)\.collect\(\)", r"iter_map_collect(&\1, \2)",
                         "`v.iter().map(f).collect()` -> mirrored `iter_map_collect(&v, f)` (assumed std meaning: element-wise image, "
                         "same length and order; the closure text is unchanged)"),
    "drop_contracts_ensures": (r"(?m)^\s*#\[ensures\([^\n]*\)\]\n", "",
                               "`#[contracts::ensures(..)]` run-time postcondition attributes dropped (debug-build assertions of the "
                               "`contracts` crate; the same facts are part of the Verus contract)"),
    "vec_extend_vec": (r"(\w+)\.extend\((\w+)\);", r"vec_extend(&mut \1, \2);",
                       "`a.extend(b)` with b: Vec<T> -> mirrored `vec_extend(&mut a, b)` (assumed std meaning: a := a ++ b)"),
    "sort_unstable_by_key_m": (r"(\w+)\.sort_unstable_by_key\(", r"sort_unstable_by_key_m(&mut \1, ",
                               "`v.sort_unstable_by_key(f)` -> mirrored `sort_unstable_by_key_m(&mut v, f)` (assumed std meaning: a "
                               "permutation of v, non-decreasing in the key; the key closure is unchanged)"),
    "into_individuals_call": (r"(?s)component\s*\.initialize\(problem, &mut state\.random_mut\(\)\)\s*\.into_individuals\(\)",
                              "into_individuals_m(component.initialize(problem, &mut state.random_mut()))",
                              "`x.into_individuals()` (blanket trait over IntoIterator) -> mirrored `into_individuals_m(x)` with the contract "
                              "of the real helper (C05 Kani unit)"),
    "sort_unstable_by_key_m_self0": (r"self\.0\.sort_unstable_by_key\(", r"sort_unstable_by_key_m(&mut self.0, ",
                                     "`self.0.sort_unstable_by_key(f)` -> mirrored `sort_unstable_by_key_m(&mut self.0, f)` (assumed std meaning: a "
                                     "permutation, non-decreasing in the key; the key closure is unchanged)"),
    "with_suggestion_dropped": (r"\n\s*\.with_suggestion\(\|\| \{\s*format!\((?:[^()]|\([^()]*\))*\)\s*\}\)", "",
                                "`.with_suggestion(|| { format!(..) })` dropped (color_eyre::Section: assumed to map Ok to Ok and Err to Err, "
                                "only attaching a help text to the error report)"),
    "into_iter_chain_collect": (r"(\w+)\.into_iter\(\)\.chain\((\w+)\)\.collect\(\)", r"vec_chain_collect(\1, \2)",
                                "`a.into_iter().chain(b).collect()` with a, b: Vec<T> -> mirrored `vec_chain_collect(a, b)` (assumed std meaning: a ++ b)"),
    "slice_shuffle_m": (r"(\w+)\.shuffle\((\w+)\);", r"slice_shuffle(&mut \1, \2);",
                        "`v.shuffle(rng)` -> mirrored `slice_shuffle(&mut v, rng)` (assumed rand meaning: some permutation of the elements)"),
    "slice_iter_collect": (r"(\w+)\.iter\(\)\.collect\(\)", r"slice_iter_collect(\1)",
                           "`s.iter().collect()` (into Vec<&T>) -> mirrored `slice_iter_collect(s)` (assumed std meaning: references to all elements, in order)"),
    "repeat_take_collect": (r"std::iter::repeat\((\w+)\)\s*\.take\(([^()]*(?:\([^()]*\))?[^()]*)\)\s*\.collect\(\)", r"repeat_take_collect(\1, \2)",
                            "`std::iter::repeat(x).take(n).collect()` -> mirrored `repeat_take_collect(x, n)` (assumed std meaning: n copies of the reference x)"),
    "for_underscore_range": (r"for _ in 0\.\.", r"for verif_i in 0..",
                             "`for _ in 0..n` -> `for verif_i in 0..n` (the unused loop variable gets a name so that the invariant can mention it)"),
    "phantom_fn": (r"PhantomData<fn\(\) -> (\w+)>", r"PhantomData<\1>",
                   "`PhantomData<fn() -> P>` -> `PhantomData<P>` (variance marker only; Verus has no fn-pointer types)"),
    "temp_guard_rotate": (r"(?m)^(\s*)state\.populations_mut\(\)\.rotate\(self\.n\);", r"\1let mut verif_tmp = state.populations_mut(); verif_tmp.rotate(self.n);",
                          "`state.populations_mut().rotate(n);` -> `let mut verif_tmp = state.populations_mut(); verif_tmp.rotate(n);` "
                          "(names the temporary guard so its final value can be asserted; same evaluation order)"),
    "fn_ptr_call": (r"\(self\.(\w+)\)\(", r"fnptr_call_\1(&self.\1, ",
                    "call through fn-pointer field -> mirrored call with abstract contract"),
    "plus_eq_deref": (r"\*([^;\n]*?)\?\s*\+=\s*1;", r"incr_u32(\1?);",
                      "`*x? += 1` on a RefMut<u32> temporary -> mirrored incr_u32(x?) (assumed: *x = *x + 1, overflow = Rust panic)"),
}


class Rewrites:
    def __init__(self):
        self.counts = {}
        self.notes = {}

    def add(self, key, note, n=1):
        if n:
            self.counts[key] = self.counts.get(key, 0) + n
            self.notes[key] = note

    def as_list(self):
        return [f"{k} x{self.counts[k]}: {self.notes[k]}" for k in sorted(self.counts)]


def _read(relpath):
    p = os.path.join(REPO, relpath)
    if not os.path.isfile(p):
        raise AnchorError(f"source file {relpath} missing")
    with open(p) as fh:
        src = fh.read()
    return src, rustlex.mask(src)


def _strip_docs_attrs(text, rw):
    """Drop doc comments, ordinary comments on their own line, and outer attributes from an item."""
    out, n_doc, n_attr = [], 0, 0
    lines = text.split("\n")
    i = 0
    while i < len(lines):
        s = lines[i].strip()
        if s.startswith("///") or s.startswith("//!"):
            n_doc += 1
        elif s.startswith("#[") or s.startswith("#!["):
            # attribute may span lines: consume to the matching ']'
            depth, j = 0, i
            while True:
                depth += lines[j].count("[") - lines[j].count("]")
                if depth <= 0:
                    break
                j += 1
            n_attr += 1
            i = j
        else:
            out.append(lines[i])
        i += 1
    rw.add("doc-comment-dropped", "doc comment lines dropped", n_doc)
    rw.add("attribute-dropped", "outer attributes (derive/serde/doc/allow/track_caller/contracts) dropped", n_attr)
    return "\n".join(out)


def extract_struct(relpath, name, rw):
    src, masked = _read(relpath)
    a, b = rustlex.find_struct(src, masked, name)
    text = _strip_docs_attrs(src[a:b], rw)
    m = rustlex.mask(text)
    # widen visibility of the item and of its fields
    if not text.lstrip().startswith("pub"):
        text = "pub " + text.lstrip()
        rw.add("vis-widened", "item/field visibility widened to pub")
        m = rustlex.mask(text)
    elif re.match(r"\s*pub\s*\([^)]*\)", text):
        text = re.sub(r"^\s*pub\s*\([^)]*\)", "pub", text, count=1)
        rw.add("vis-widened", "item/field visibility widened to pub")
        m = rustlex.mask(text)
    ob = rustlex.first_open_brace(m, 0)
    if ob >= 0:  # named fields
        cb = rustlex.match_brace(m, ob)
        body = text[ob + 1:cb]
        new_lines, cnt = [], 0
        for line in body.split("\n"):
            mm = re.match(r"^(\s*)(pub(?:\s*\([^)]*\))?\s+)?([a-z_][A-Za-z0-9_]*\s*:.*)$", line)
            if mm:
                if not (mm.group(2) or "").startswith("pub "):
                    cnt += 1
                line = f"{mm.group(1)}pub {mm.group(3)}"
            new_lines.append(line)
        rw.add("vis-widened", "item/field visibility widened to pub", cnt)
        text = text[:ob + 1] + "\n".join(new_lines) + text[cb:]
    else:  # tuple struct: `struct X<..>(A, B);`
        po = m.find("(")
        if po >= 0:
            # find matching paren
            depth, k = 0, po
            while True:
                if m[k] == "(":
                    depth += 1
                elif m[k] == ")":
                    depth -= 1
                    if depth == 0:
                        break
                k += 1
            inner = text[po + 1:k]
            parts, d, cur = [], 0, ""
            for ch in inner:
                if ch in "<([":
                    d += 1
                elif ch in ">)]":
                    d -= 1
                if ch == "," and d == 0:
                    parts.append(cur)
                    cur = ""
                else:
                    cur += ch
            if cur.strip():
                parts.append(cur)
            new = []
            for p in parts:
                ps = p.strip()
                if ps and not ps.startswith("pub"):
                    ps = "pub " + ps
                    rw.add("vis-widened", "item/field visibility widened to pub")
                new.append(ps)
            text = text[:po + 1] + ", ".join(new) + text[k:]
    return text


def extract_implhdr(relpath, header, rehome, rw, dropgen=False, as_text=None):
    src, masked = _read(relpath)
    a, ob, _ = rustlex.find_impl(src, masked, header)
    hdr = rustlex.norm(src[a:ob])
    if as_text:
        rw.add("impl-header-respecified",
               "trait-impl header re-stated as an inherent impl with impl-level generics/bounds that the self type does "
               "not mention moved onto the method: `" + hdr + "` -> `" + as_text + "`")
        return as_text + " {"
    if rehome:
        # impl<G> Trait<..> for Type<..> [where ..]  ->  impl<G> Type<..> [where ..]
        m = re.match(r"^(impl(?:<.*?>)?)\s+(.+?)\s+for\s+(.+)$", hdr)
        if not m:
            raise AnchorError(f"cannot rehome impl header {hdr!r}")
        # generics: balance angle brackets for the impl generics
        g = _split_impl_generics(hdr)
        rest = hdr[len(g):].strip()
        mm = re.match(r"^(.+?)\s+for\s+(.+)$", rest)
        hdr = f"{g} {mm.group(2)}" if not dropgen else f"impl {mm.group(2)}"
        if dropgen:
            rw.add("impl-generics-moved", "impl-level generics that the self type does not mention are moved onto the method "
                   "(`impl<P: X> Tr<P> for T { fn f(..) }` -> `impl T { fn f<P: X>(..) }`)")
        rw.add("trait-impl-rehomed",
               "trait-impl method re-homed as inherent method of the same type (header rewrite only; "
               "Verus does not allow a trait impl to strengthen the trait's contract)")
    return hdr + " {"


def _split_impl_generics(hdr):
    assert hdr.startswith("impl")
    k = 4
    if k < len(hdr) and hdr[k] == "<":
        d = 0
        while True:
            if hdr[k] == "<":
                d += 1
            elif hdr[k] == ">" and hdr[k - 1] != "-":
                d -= 1
                if d == 0:
                    return hdr[:k + 1]
            k += 1
    return "impl"


def _name_return(sig, sig_masked, ret, rw):
    """`-> T` => `-> (ret: T)` in a signature (text up to, not including, the body brace)."""
    depth, arrow = 0, -1
    for k in range(len(sig_masked) - 1):
        ch = sig_masked[k]
        if ch in "([<":
            depth += 1
        elif ch in ")]":
            depth -= 1
        elif ch == ">" and sig_masked[k - 1] != "-":
            depth -= 1
        if ch == "-" and sig_masked[k + 1] == ">" and depth == 0 and arrow < 0:
            arrow = k   # the first depth-0 arrow is the function's own return arrow
    if arrow < 0:
        return sig
    # where clause at depth 0 after the arrow
    mw = re.search(r"\bwhere\b", sig_masked[arrow:])
    end = arrow + mw.start() if mw else len(sig)
    ty = sig[arrow + 2:end].strip()
    rw.add("return-named", "`-> T` written as `-> (r: T)` so the contract can name the result")
    tail = sig[end:]
    return f"{sig[:arrow]}-> ({ret}: {ty})" + ("\n    " + tail.strip() if tail.strip() else "")


def extract_fn(relpath, impl_header, name, opts, spec_text, loops, hints, substs, rw, closures=()):
    src, masked = _read(relpath)
    if impl_header in ("-", ""):
        a, ob, cb = rustlex.find_fn(src, masked, name, 0, None, 0)
    else:
        _, iob, icb = rustlex.find_impl(src, masked, impl_header)
        a, ob, cb = rustlex.find_fn(src, masked, name, iob + 1, icb, 0)
    sig, body = src[a:ob], src[ob:cb + 1]
    body_masked = masked[ob:cb + 1]
    sig_masked = masked[a:ob]

    # --- body insertions are computed on original offsets, applied back to front
    inserts = []  # (offset in body, text)
    found_loops = rustlex.find_loops(body_masked)
    for ordinal, inv in loops:
        if ordinal >= len(found_loops):
            raise AnchorError(f"{name}: loop #{ordinal} not found ({len(found_loops)} loops)")
        _, lob = found_loops[ordinal]
        inserts.append((lob, "\n" + inv.rstrip() + "\n"))
        rw.add("ghost-inserted", "contract / loop invariant / ghost hint text spliced in (no executable tokens)")
    if opts.get("expect_loops") is not None and int(opts["expect_loops"]) != len(found_loops):
        raise AnchorError(f"{name}: expected {opts['expect_loops']} loops, found {len(found_loops)}")
    for where, rx, text in hints:
        if where == "start":
            inserts.append((body.index("{") + 1, "\n" + text.rstrip() + "\n"))
            rw.add("ghost-inserted", "contract / loop invariant / ghost hint text spliced in (no executable tokens)")
            continue
        # match against single lines of the body; `/rx/#k` selects the k-th of exactly-known many matches
        occ = None
        if "\x00" in rx:
            rx, occ = rx.split("\x00")
            occ = int(occ)
        pos, hitn = 0, []
        for line in body.split("\n"):
            if re.search(rx, line):
                hitn.append((pos, pos + len(line)))
            pos += len(line) + 1
        if where == "before-each":
            # the property assertions of a unit, repeated before EVERY success exit the regex describes (the tail expression and
            # any explicit `return Ok(..)`): an early return added by a change is then checked against the same assertions
            if not hitn:
                raise AnchorError(f"{name}: hint anchor /{rx}/ matched 0 lines")
            for la, lb in hitn:
                inserts.append((la, text.rstrip() + "\n"))
            rw.add("ghost-inserted", "contract / loop invariant / ghost hint text spliced in (no executable tokens)")
            continue
        if occ is None and len(hitn) != 1:
            raise AnchorError(f"{name}: hint anchor /{rx}/ matched {len(hitn)} lines")
        if occ is not None and occ >= len(hitn):
            raise AnchorError(f"{name}: hint anchor /{rx}/#{occ}: only {len(hitn)} matches")
        la, lb = hitn[occ or 0]
        if where == "before":
            inserts.append((la, text.rstrip() + "\n"))
        else:
            inserts.append((lb, "\n" + text.rstrip()))
        rw.add("ghost-inserted", "contract / loop invariant / ghost hint text spliced in (no executable tokens)")
    found_cl = find_closures(body_masked)
    for ordinal, ret, ty, spec in closures:
        if ordinal >= len(found_cl):
            raise AnchorError(f"{name}: closure #{ordinal} not found ({len(found_cl)} closures)")
        bar_end, expr_end = found_cl[ordinal]
        one = " ".join(x.strip() for x in spec.strip().split("\n"))
        inserts.append((bar_end, f" -> ({ret}: {ty}) {one} {{"))
        inserts.append((expr_end, " }"))
        rw.add("closure-annotated", "`|x| e` written `|x| -> (r: T) ensures .. { e }` (Verus does not infer closure "
               "postconditions; the expression e is unchanged)")
    for off, text in sorted(inserts, key=lambda t: (-t[0], 0 if t[1] == " }" else 1)):
        body = body[:off] + text + body[off:]

    if opts.get("mutself"):
        # `fn f(mut self, ..) { B }`  ->  `fn f(self, ..) { let mut verif_self = self; B[self := verif_self] }`
        if not re.search(r"\(\s*mut\s+self\b", sig):
            raise AnchorError(f"{name}: option mutself but the receiver is not `mut self`")
        sig = re.sub(r"\(\s*mut\s+self\b", "(self", sig, count=1)
        sig_masked = rustlex.mask(sig)
        bm = rustlex.mask(body)
        out, last = [], 0
        for m in re.finditer(r"\bself\b", bm):
            out.append(body[last:m.start()])
            out.append("verif_self")
            last = m.end()
        out.append(body[last:])
        body = "".join(out)
        ob0 = body.index("{")
        body = body[:ob0 + 1] + "\n        let mut verif_self = self;" + body[ob0 + 1:]
        rw.add("mut-self-rebound", "`fn f(mut self, ..)` -> `fn f(self, ..) { let mut verif_self = self; .. }` with `self` renamed in "
               "the body (Verus does not support `mut self`; same semantics)")
    if "ret" in opts:
        sig = _name_return(sig, sig_masked, opts["ret"], rw)
    if "addgen" in opts:
        m = re.search(r"\bfn\s+" + re.escape(name) + r"\s*(<)?", sig)
        if m.group(1):
            sig = sig[:m.end()] + opts["addgen"] + ", " + sig[m.end():]
        else:
            sig = sig[:m.end()] + "<" + opts["addgen"] + ">" + sig[m.end():]
    if "addwhere" in opts:
        if re.search(r"\bwhere\b", rustlex.mask(sig)):
            sig = sig.rstrip().rstrip(",") + ",\n        " + opts["addwhere"] + ","
        else:
            sig = sig.rstrip() + "\n    where " + opts["addwhere"] + ","
    if opts.get("novis"):
        sig2 = re.sub(r"^\s*pub(\s*\([^)]*\))?\s+", "", sig)
        if sig2 != sig:
            rw.add("vis-dropped", "`pub` dropped on a function re-homed into a trait-less impl")
        sig = sig2
    text = sig.rstrip() + "\n" + spec_text.rstrip() + "\n" + body if spec_text.strip() else sig + body
    if spec_text.strip():
        rw.add("ghost-inserted", "contract / loop invariant / ghost hint text spliced in (no executable tokens)")
    for key in substs:
        if key not in ALLOWED_SUBST:
            raise AnchorError(f"substitution {key!r} is not in the closed list")
        rx, rep, note = ALLOWED_SUBST[key]
        text, n = re.subn(rx, rep, text)
        if n == 0 and not opts.get("subst_optional"):
            raise AnchorError(f"{name}: substitution {key!r} did not apply")
        rw.add("subst:" + key, note, n)
    # inline comments in the body are kept; doc comments cannot occur inside fn text
    return text


def find_closures(masked_body):
    """(end of `|args|`, end of closure expression) for closures passed as the last call argument:
    `(|args| expr)`; in textual order."""
    out = []
    for m in re.finditer(r"\(\s*(?:move\s+)?\|[^|]*\|", masked_body):
        bar_end = m.end()
        depth, k = 0, bar_end
        while k < len(masked_body):
            ch = masked_body[k]
            if ch in "([{":
                depth += 1
            elif ch in ")]}":
                if depth == 0:
                    break
                depth -= 1
            elif ch == "," and depth == 0:
                break
            k += 1
        out.append((bar_end, k))
    return out


def _fn_exists(relpath, impl_header, name):
    src, masked = _read(relpath)
    try:
        if impl_header in ("-", ""):
            rustlex.find_fn(src, masked, name, 0, None, 0)
        else:
            _, iob, icb = rustlex.find_impl(src, masked, impl_header)
            rustlex.find_fn(src, masked, name, iob + 1, icb, 0)
        return True
    except AnchorError:
        return False


def check_inventory(relpath, impl_header, allowed):
    """Every fn defined directly in the impl block must be listed (under contract or declared irrelevant)."""
    src, masked = _read(relpath)
    _, iob, icb = rustlex.find_impl(src, masked, impl_header)
    depths = rustlex.brace_depths(masked, iob + 1, icb)
    found = []
    for m in re.finditer(r"\bfn\s+(\w+)", masked[iob + 1:icb]):
        if depths[m.start()] == 0:
            found.append(m.group(1))
    extra = [f for f in found if f not in allowed]
    if extra:
        raise AnchorError(f"INVENTORY: {relpath} :: {impl_header} defines function(s) not under contract: {extra}")
    return found


class Expanded:
    def __init__(self):
        self.lines = []
        self.fn_spans = []      # (first_line, last_line, label, source "file::impl::fn")
        self.rewrites = Rewrites()
        self.includes = []
        self.extracted = []     # labels of real functions under contract
        self.novacuity = []     # labels whose `ensures false` copy is skipped (trait-impl members)

    def text(self):
        return "\n".join(self.lines) + "\n"

    def label_for_line(self, line):
        for a, b, label, _ in self.fn_spans:
            if a <= line <= b:
                return label
        return None


def _load_template(template_path, depth=0):
    """Template lines with `//@use <fragment>` expanded recursively (fragments may contain directives)."""
    if depth > 5:
        raise AnchorError("//@use nesting too deep")
    out = []
    with open(template_path) as fh:
        for line in fh.read().split("\n"):
            if line.strip().startswith("//@use "):
                rel = line.strip()[len("//@use "):].strip()
                out.append(f"// ---- contracts from {rel}")
                out.extend(_load_template(os.path.join(VERIF, rel), depth + 1))
            else:
                out.append(line)
    return out


def expand(template_path):
    tl = _load_template(template_path)
    ex = Expanded()
    i = 0
    while i < len(tl):
        line = tl[i]
        s = line.strip()
        if s.startswith("//@include "):
            rel = s[len("//@include "):].strip()
            with open(os.path.join(VERIF, rel)) as fh:
                ex.lines.append(f"// ---- trusted preamble: {rel}")
                ex.lines.extend(fh.read().rstrip("\n").split("\n"))
                ex.lines.append(f"// ---- end preamble: {rel}")
            ex.includes.append(rel)
        elif s.startswith("//@struct "):
            parts = [x.strip() for x in s[len("//@struct "):].split(" :: ")]
            f, name = parts[0], parts[1]
            ex.lines.append(f"// ---- extracted verbatim: {f} :: {name}")
            stext = extract_struct(f, name, ex.rewrites)
            for o in parts[2:]:
                if o.startswith("subst="):
                    key = o[len("subst="):]
                    if key not in ALLOWED_SUBST:
                        raise AnchorError(f"substitution {key!r} is not in the closed list")
                    rx, rep, note = ALLOWED_SUBST[key]
                    stext, n = re.subn(rx, rep, stext)
                    if n == 0:
                        raise AnchorError(f"struct {name}: substitution {key!r} did not apply")
                    ex.rewrites.add("subst:" + key, note, n)
            ex.lines.extend(stext.split("\n"))
        elif s.startswith("//@inventory "):
            parts = [x.strip() for x in s[len("//@inventory "):].split(" :: ")]
            fns = check_inventory(parts[0], parts[1], [x.strip() for x in parts[2].split(",")])
            ex.lines.append(f"// ---- inventory ok: {parts[0]} :: {parts[1]} defines {fns}")
        elif s.startswith("//@implhdr "):
            parts = [x.strip() for x in s[len("//@implhdr "):].split(" :: ")]
            f, hdr = parts[0], parts[1]
            ex.lines.append(f"// ---- impl header from {f}")
            as_text = next((o[3:] for o in parts[2:] if o.startswith("as=")), None)
            ex.lines.append(extract_implhdr(f, hdr, "rehome" in parts[2:], ex.rewrites, "dropgen" in parts[2:], as_text))
        elif s.startswith("//@fn "):
            parts = [x.strip() for x in s[len("//@fn "):].split(" :: ")]
            f, hdr, name = parts[0], parts[1], parts[2]
            opts = {}
            for o in parts[3:]:
                if "=" in o:
                    k, v = o.split("=", 1)
                    opts[k.strip()] = v.strip()
                else:
                    opts[o] = True
            spec, loops, hints, substs, closures = [], [], [], [], []
            cur = spec
            i += 1
            while i < len(tl) and tl[i].strip() != "//@endfn":
                t = tl[i].strip()
                if t.startswith("//@loop "):
                    buf = []
                    loops.append([int(t.split()[1]), buf])
                    cur = buf
                elif t.startswith("//@hint "):
                    buf = []
                    if t == "//@hint start":      # ghost declarations at the very start of the body (entry-state snapshots)
                        hints.append(["start", "", buf])
                    else:
                        m = re.match(r"//@hint (before-each|before|after) /(.*)/(?:#(\d+))?\s*$", t)
                        if not m:
                            raise AnchorError(f"bad hint directive: {t}")
                        hints.append([m.group(1), m.group(2) + ("\x00" + m.group(3) if m.group(3) else ""), buf])
                    cur = buf
                elif t.startswith("//@subst "):
                    substs.append(t[len("//@subst "):].strip())
                elif t.startswith("//@closure "):
                    m = re.match(r"//@closure (\d+) :: ret=(\w+): (.*)$", t)
                    if not m:
                        raise AnchorError(f"bad closure directive: {t}")
                    buf = []
                    closures.append([int(m.group(1)), m.group(2), m.group(3).strip(), buf])
                    cur = buf
                else:
                    cur.append(tl[i])
                i += 1
            if i >= len(tl):
                raise AnchorError(f"{template_path}: //@fn {name} without //@endfn")
            if opts.get("optional") and not _fn_exists(f, hdr, name):
                i += 1
                continue
            text = extract_fn(
                f, hdr, name, opts, "\n".join(spec),
                [(k, "\n".join(b)) for k, b in loops],
                [(w, r, "\n".join(b)) for w, r, b in hints],
                substs, ex.rewrites, [(k, r, ty, "\n".join(b)) for k, r, ty, b in closures])
            label = opts.get("label") or (_type_of_header(hdr) + "::" + name if hdr not in ("-", "") else name)
            first = len(ex.lines) + 2
            ex.lines.append(f"// ---- extracted verbatim: {f} :: {hdr} :: fn {name}")
            ex.lines.extend(text.split("\n"))
            ex.fn_spans.append((first, len(ex.lines), label, f"{f}::{hdr}::{name}"))
            if opts.get("novacuity"):
                ex.novacuity.append(label)
            ex.extracted.append(label)
        else:
            ex.lines.append(line)
        i += 1
    return ex


def _type_of_header(hdr):
    h = rustlex.norm(hdr)
    if h.startswith("/"):
        return h.strip("/")
    g = _split_impl_generics(h)
    rest = h[len(g):].strip()
    rest = re.split(r"\bwhere\b", rest)[0].strip()
    if " for " in rest:
        tr, ty = rest.split(" for ", 1)
        return f"<{ty.strip()} as {tr.strip()}>"
    return rest
