"""Regenerate MANIFEST.json from the unit tables (python3 -m vlib.manifest_gen)."""
import json
import os

from .props import PROPS, NOT_APPLICABLE
from .manifest_text import TEXT as MANIFEST_TEXT

VERIF = os.path.dirname(os.path.dirname(os.path.abspath(__file__)))


def main():
    checks = []
    for pid in sorted(PROPS):
        t = MANIFEST_TEXT[pid]
        checks.append({
            "property_id": pid,
            "quick_cmd": f"./check {pid} --tier quick",
            "thorough_cmd": f"./check {pid} --tier thorough",
            "evidence_file": f"/verif/evidence/{pid}.json",
            "replay_cmd_template": "./check replay {path}",
            "engine": "contracts",
            "level_claimed": {"category": t["category"], "text": t["text"], "design_ref": t.get("design_ref", "DESIGN.md §4 " + pid)},
            "level_note": t["note"],
            "technique": t["technique"],
        })
    m = {
        "version": 1,
        "setup_cmd": "./check setup",
        "hooks": {
            "guard": "none in /repo: all instrumentation (cfg(kani) contract attributes, cfg(kani)/cfg(verif_replay) harness module) is injected into a per-run scratch copy",
            "enable": "automatic: each check rsyncs /repo's working tree to a scratch directory, inserts #[cfg_attr(kani, ...)] contracts and src/verif_harness/, and builds there with cargo kani (or --cfg verif_replay for native replay); Verus units are extracted from /repo/src on every run",
            "baseline_off_cmd": "cd /repo && cargo test --workspace --no-fail-fast --offline",
            "source_commits": [],
            "add_only": True,
        },
        "engines": [
            {"name": "contracts", "path": "/verif/check", "serves_properties": sorted(PROPS),
             "kind_free_text": "contract-based deductive verification of the real code: Verus (unbounded, modular, functions extracted verbatim each run) + Kani/CBMC Hoare triples and function contracts (bit-precise; complete when loop-free over full domains, otherwise labelled bounded)"},
        ],
        "checks": checks,
        "notes": "Exit codes: 0 all obligations discharged (known findings printed as KNOWN-FINDING), 1 VIOLATION (a registered obligation refuted by the verifier), 2 undecided/tool error (lost anchor, unsupported construct, rlimit, timeout) - never an alarm. See DESIGN.md.",
        "not_applicable": [{"property_id": k, "reason": v} for k, v in sorted(NOT_APPLICABLE.items()) if k not in PROPS],
    }
    json.dump(m, open(os.path.join(VERIF, "MANIFEST.json"), "w"), indent=1)
    print("MANIFEST.json written:", len(checks), "checks,", len(m["not_applicable"]), "not applicable")


if __name__ == "__main__":
    main()
