"""./check selftest [--only verus] [names...]: apply each deliberate property-breaking change (selftest/mutants, seeded/) to a
scratch copy of /repo and require a VIOLATION from the property's check; apply each harmless refactoring
(selftest/harmless) and require silence (exit 0)."""
import glob
import json
import os
import shutil
import subprocess
import sys
import time

VERIF = os.path.dirname(os.path.dirname(os.path.abspath(__file__)))


def run(names, verus_only=False):
    cases = []
    for kind, pat in (("mutant", "selftest/mutants/*"), ("seeded", "seeded/*"), ("harmless", "selftest/harmless/*")):
        for d in sorted(glob.glob(os.path.join(VERIF, pat))):
            if not os.path.isfile(os.path.join(d, "patch.diff")) or not os.path.isfile(os.path.join(d, "meta.json")):
                continue
            n = os.path.basename(d)
            if names and n not in names:
                continue
            meta = json.load(open(os.path.join(d, "meta.json")))
            cases.append((kind, n, d, meta))
    results = []
    for kind, n, d, meta in cases:
        t0 = time.time()
        scratch = f"/var/tmp/mahf-selftest.{os.getpid()}"
        shutil.rmtree(scratch, ignore_errors=True)
        repo = os.path.join(scratch, "repo")
        os.makedirs(scratch, exist_ok=True)
        subprocess.run(["rsync", "-a", "--exclude", "target", "--exclude", ".git", "/repo/", repo + "/"], check=True)
        p = subprocess.run(["patch", "-p1", "-s", "-i", os.path.join(d, "patch.diff")], cwd=repo, capture_output=True, text=True)
        if p.returncode != 0:
            results.append((kind, n, meta["property"], "PATCH-FAILED", p.stdout[-200:]))
            shutil.rmtree(scratch, ignore_errors=True)
            continue
        env = dict(os.environ, VERIF_REPO=repo, VERIF_EVIDENCE_DIR=os.path.join(scratch, "evidence"),
                   VERIF_REPLAY_DIR=os.path.join(scratch, "replays"))
        if verus_only:
            env["VERIF_ENGINES"] = "verus"
        c = subprocess.run([os.path.join(VERIF, "check"), meta["property"], "--tier", "quick"], cwd=VERIF, env=env,
                           capture_output=True, text=True)
        vio = [l for l in c.stdout.split("\n") if l.startswith("VIOLATION")]
        want = "violation" if kind != "harmless" else "silent"
        if want == "violation":
            verdict = "DETECTED" if (c.returncode == 1 and vio) else ("UNDECIDED(exit 2)" if c.returncode == 2 else "MISSED")
        else:
            verdict = "SILENT" if c.returncode == 0 and not vio else ("UNDECIDED(exit 2)" if c.returncode == 2 and not vio else "FALSE-ALARM")
        results.append((kind, n, meta["property"], verdict, (vio[0][:160] if vio else c.stdout.strip().split("\n")[-1][:160])))
        print(f"{kind:8s} {n:40s} {meta['property']} {verdict:18s} {time.time()-t0:6.1f}s  {results[-1][4]}", flush=True)
        shutil.rmtree(scratch, ignore_errors=True)
    bad = [r for r in results if r[3] in ("MISSED", "FALSE-ALARM", "PATCH-FAILED")]
    print(f"selftest: {len(results)} cases, {sum(1 for r in results if r[3] in ('DETECTED', 'SILENT'))} as expected, "
          f"{sum(1 for r in results if r[3].startswith('UNDECIDED'))} undecided, {len(bad)} wrong")
    json.dump([dict(kind=r[0], name=r[1], property=r[2], verdict=r[3], detail=r[4]) for r in results],
              open(os.path.join(VERIF, "selftest", "last_run.json"), "w"), indent=1)
    return 1 if bad else 0
