"""Kani pipeline: scratch copy of /repo, in-place annotation + harness injection, cargo kani, parsing,
concrete-playback extraction, native replay."""
import fcntl
import glob
import json
import os
import re
import shutil
import subprocess
import time

from . import rustlex
from .rustlex import AnchorError

VERIF = os.path.dirname(os.path.dirname(os.path.abspath(__file__)))
REPO = os.environ.get("VERIF_REPO", "/repo")
CACHE = os.path.join(VERIF, ".cache")
BT = os.path.join(CACHE, "backtrace-patched")
KANI_TARGET = os.path.join(CACHE, "kani-target")
REPLAY_TARGET = os.path.join(CACHE, "replay-target")
NCPU = os.cpu_count() or 8

ENV = dict(os.environ, CARGO_NET_OFFLINE="true", CARGO_TERM_COLOR="never")


def scratch_root():
    base = os.environ.get("VERIF_SCRATCH", "/var/tmp")
    d = os.path.join(base, f"mahf-verif.{os.getpid()}.{int(time.time()*1000) % 100000}")
    os.makedirs(d, exist_ok=True)
    return d


class Lock:
    def __init__(self, name):
        os.makedirs(CACHE, exist_ok=True)
        self.path = os.path.join(CACHE, name + ".lock")

    def __enter__(self):
        self.fh = open(self.path, "w")
        fcntl.flock(self.fh, fcntl.LOCK_EX)
        return self

    def __exit__(self, *a):
        fcntl.flock(self.fh, fcntl.LOCK_UN)
        self.fh.close()


def ensure_backtrace_patch():
    """One mechanical dependency patch (DESIGN fact 1): backtrace-0.3.76 `unreachable!()` is ambiguous under
    Kani's macro overrides.  Error-reporting path only."""
    with Lock("bt"):
        if os.path.isfile(os.path.join(BT, "src", "types.rs")):
            return
        srcs = glob.glob(os.path.expanduser("~/.cargo/registry/src/*/backtrace-0.3.76"))
        if not srcs:
            raise RuntimeError("backtrace-0.3.76 not in cargo registry")
        tmp = BT + ".tmp"
        shutil.rmtree(tmp, ignore_errors=True)
        shutil.copytree(srcs[0], tmp)
        p = os.path.join(tmp, "src", "types.rs")
        s = open(p).read()
        s2 = re.sub(r"(\n\s+)unreachable!\(\)(\n\s+\}\n\})", r"\1core::unreachable!()\2", s, count=1)
        if s2 == s:
            raise RuntimeError("backtrace patch site not found")
        open(p, "w").write(s2)
        os.rename(tmp, BT)


def prepare_copy(dst, harness_files, annotations=(), use_map_shim=False, extra_mods=(), inject=()):
    """rsync /repo -> dst, inject harness module + in-place contract attributes."""
    os.makedirs(dst, exist_ok=True)
    subprocess.run(["rsync", "-a", "--delete", "--exclude", "target", "--exclude", ".git", REPO + "/", dst + "/"],
                   check=True)
    os.makedirs(os.path.join(dst, ".cargo"), exist_ok=True)
    with open(os.path.join(dst, ".cargo", "config.toml"), "w") as fh:
        fh.write("[net]\noffline = true\n[patch.crates-io]\nbacktrace = { path = \"%s\" }\n" % BT)
    hd = os.path.join(dst, "src", "verif_harness")
    os.makedirs(hd, exist_ok=True)
    mod = open(os.path.join(VERIF, "shim", "harness_support.rs")).read()
    names = []
    for hf in harness_files:
        name = os.path.splitext(os.path.basename(hf))[0]
        shutil.copy(hf, os.path.join(hd, name + ".rs"))
        mod += f"\npub mod {name};\n"
        names.append(name)
    open(os.path.join(hd, "mod.rs"), "w").write(mod)
    # harness files injected as CHILD modules of a real module (to reach its private items)
    inj_mods = []
    for inj in inject:
        name = os.path.splitext(os.path.basename(inj["file"]))[0]
        shutil.copy(os.path.join(VERIF, inj["file"]), os.path.join(hd, name + ".rs"))
        tgt = os.path.join(dst, inj["into"])
        if not os.path.isfile(tgt):
            raise AnchorError(f"inject target {inj['into']} missing")
        rel = os.path.relpath(os.path.join(hd, name + ".rs"), os.path.dirname(tgt))
        with open(tgt, "a") as fh:
            fh.write(f"\n#[cfg(any(kani, verif_replay))]\n#[path = \"{rel}\"]\npub mod verif_{name};\n")
        modpath = inj["into"][len("src/"):-len(".rs")].replace("/", "::")
        if modpath.endswith("::mod"):
            modpath = modpath[:-5]
        inj_mods.append((f"{modpath}::verif_{name}", os.path.join(VERIF, inj["file"])))
    lib = os.path.join(dst, "src", "lib.rs")
    s = open(lib).read()
    s += "\n#[cfg(any(kani, verif_replay))]\npub mod verif_harness;\n"
    if use_map_shim:
        shutil.copy(os.path.join(VERIF, "shim", "verif_map.rs"), os.path.join(dst, "src", "verif_map.rs"))
        s += "\n#[cfg(kani)]\npub mod verif_map;\n"
    open(lib, "w").write(s)
    # generated replay example: dispatch by harness name
    fns = []
    for modname, hf in [("verif_harness::" + os.path.splitext(os.path.basename(h))[0], h) for h in harness_files] + inj_mods:
        txt = open(hf).read()
        for m in re.finditer(r"#\[cfg_attr\(kani,\s*kani::proof(?:_for_contract\([^)]*\))?\)\][^{;]*?pub fn (\w+)\s*\(\)", txt, re.S):
            fns.append((modname, m.group(1)))
        for m in re.finditer(r"// @native-harness[^\n]*\n(?:\s*#\[[^\n]*\]\n)*\s*pub fn (\w+)\s*\(\)", txt):
            fns.append((modname, m.group(1)))
    ex = os.path.join(dst, "examples", "verif_replay.rs")
    os.makedirs(os.path.dirname(ex), exist_ok=True)
    with open(ex, "w") as fh:
        fh.write("// generated: native replay of a recorded Kani counterexample (real std, no Kani)\n")
        fh.write("fn main() {\n    let a: Vec<String> = std::env::args().collect();\n")
        fh.write("    let vals: Vec<Vec<u8>> = a[2..].iter().map(|s| if s == \"-\" { vec![] } else { s.split(',').map(|b| b.parse().unwrap()).collect() }).collect();\n")
        fh.write("    mahf::verif_harness::replay_input::load(vals);\n    match a[1].as_str() {\n")
        for mod_, f in fns:
            fh.write(f"        \"{f}\" => mahf::{mod_}::{f}(),\n")
        fh.write("        other => { eprintln!(\"unknown harness {other}\"); std::process::exit(5) }\n    }\n")
        fh.write("    println!(\"VERIF-REPLAY-PASSED\");\n}\n")
    # in-place contract attributes
    n_ann = 0
    for ann in annotations:
        n_ann += annotate(dst, ann)
    return [f for _, f in fns], n_ann


def annotate(dst, ann):
    """ann = dict(file, impl, fn, attrs=[...]) -> insert attribute lines immediately above the fn."""
    p = os.path.join(dst, ann["file"])
    src = open(p).read()
    masked = rustlex.mask(src)
    if ann.get("impl") in (None, "-", ""):
        a, _, _ = rustlex.find_fn(src, masked, ann["fn"])
    else:
        _, iob, icb = rustlex.find_impl(src, masked, ann["impl"])
        a, _, _ = rustlex.find_fn(src, masked, ann["fn"], iob + 1, icb, 0)
    ls = src.rfind("\n", 0, a) + 1
    indent = src[ls:a] if src[ls:a].strip() == "" else ""
    text = "".join(f"{indent}#[cfg_attr(kani, {x})]\n" for x in ann["attrs"])
    src = src[:ls] + text + src[ls:]
    open(p, "w").write(src)
    return len(ann["attrs"])


def apply_map_shim(dst, files):
    """Registry units only: std HashMap/HashSet -> association list with the same interface (DESIGN fact 5).
    Rewrites only `use` declarations: `collections::X` inside `use std::{..}` groups and `use std::collections::X;`."""
    n = 0
    for f in files:
        p = os.path.join(dst, f)
        s = open(p).read()
        added = []

        def grp(m):
            body = m.group(1)
            items = re.findall(r"collections::(\{[^}]*\}|\w+)", body)
            if not items:
                return m.group(0)
            body2 = re.sub(r"\s*collections::(\{[^}]*\}|\w+)\s*,?", "", body)
            for it in items:
                added.append(it)
            return "use std::{" + body2 + "};"
        s2 = re.sub(r"use std::\{([^;]*?)\};", grp, s, flags=re.S)

        def single(m):
            added.append(m.group(1))
            return ""
        s2 = re.sub(r"(?m)^use std::collections::(\{[^}]*\}|\w+);\n", single, s2)
        if added:
            # place the replacement imports after the first remaining `use` item
            ins = "".join(f"#[cfg(not(kani))]\nuse std::collections::{it};\n#[cfg(kani)]\nuse crate::verif_map::{it};\n" for it in added)
            m = re.search(r"(?m)^use [^;]*;\n", s2)
            pos = m.end() if m else 0
            s2 = s2[:pos] + ins + s2[pos:]
            open(p, "w").write(s2)
            n += len(added)
    if n == 0:
        raise AnchorError("map shim: no std::collections import found to redirect")
    return n


def ensure_kani_cache():
    """Dependencies compiled once into .cache/kani-target (built by setup_cmd; rebuilt here if absent)."""
    ensure_backtrace_patch()
    with Lock("kani-cache"):
        stamp = os.path.join(KANI_TARGET, ".verif-warm")
        if os.path.isfile(stamp):
            return
        d = scratch_root()
        try:
            dst = os.path.join(d, "repo")
            warm = os.path.join(d, "warm.rs")
            open(warm, "w").write("use super::*;\n#[cfg_attr(kani, kani::proof)]\npub fn verif_warm() { let x: u8 = sym(); assert!(x as u16 <= 255); }\n")
            prepare_copy(dst, [warm])
            shutil.copy(os.path.join(REPO, "Cargo.lock"), os.path.join(dst, "Cargo.lock"))
            p = subprocess.run(["cargo", "kani", "-Z", "function-contracts", "-Z", "stubbing", "--output-format", "terse",
                                "--target-dir", KANI_TARGET, "--harness", "verif_warm"],
                               cwd=dst, env=ENV, capture_output=True, text=True, timeout=3600)
            if "VERIFICATION:- SUCCESSFUL" not in p.stdout:
                raise RuntimeError("kani warm-up failed:\n" + p.stdout[-3000:] + p.stderr[-3000:])
            open(stamp, "w").write(time.ctime())
        finally:
            shutil.rmtree(d, ignore_errors=True)


class HarnessResult:
    def __init__(self, name):
        self.name = name
        self.status = "missing"   # success | failed | undecided
        self.failed_checks = []   # (description, location)
        self.time_s = None
        self.covers = None        # (sat, total)
        self.unwinding_failure = False
        self.playback = None      # list of byte vectors
        self.raw = ""
        self.stubs = []


def parse_kani_output(out):
    """Split terse output into per-harness blocks."""
    results = {}
    # thread-prefixed and unprefixed formats
    cur = {}
    blocks = {}
    for line in out.split("\n"):
        m = re.match(r"^(?:Thread (\d+): )?Checking harness ([\w:]+)\.\.\.", line)
        if m:
            t = m.group(1) or "0"
            cur[t] = m.group(2)
            blocks.setdefault(m.group(2), [])
            continue
        m = re.match(r"^Thread (\d+): ?(.*)$", line)
        if m and m.group(1) in cur:
            cur["_last"] = m.group(1)
            blocks[cur[m.group(1)]].append(m.group(2))
            continue
        t = cur.get("_last", "0")
        if t in cur:
            blocks[cur[t]].append(line)
    # In the threaded format, the lines after "Thread N: " (multi-line result) are unprefixed and belong to
    # the last thread that printed; handled by _last above.
    for name, lines in blocks.items():
        r = HarnessResult(name)
        txt = "\n".join(lines)
        r.raw = txt
        if "VERIFICATION:- SUCCESSFUL" in txt:
            r.status = "success"
        elif "VERIFICATION:- FAILED" in txt:
            r.status = "failed"
            if "0 of " in txt and re.search(r"\*\* 0 of \d+ failed", txt) and "Failed Checks:" not in txt:
                # CBMC crashed / ran out of memory / was killed: nothing was refuted
                r.status = "undecided"
            if "out of memory" in txt or "CBMC failed" in txt or "CBMC timed out" in txt or "timed out" in txt.lower():
                if "Failed Checks:" not in txt:
                    r.status = "undecided"
        else:
            r.status = "undecided"
        for m in re.finditer(r"Failed Checks: (.*)\n\s*File: \"([^\"]*)\", line (\d+), in (\S+)", txt):
            r.failed_checks.append((m.group(1).strip(), f"{m.group(2)}:{m.group(3)} in {m.group(4)}"))
        for m in re.finditer(r"Failed Checks: (.*)$", txt, re.M):
            if not any(fc[0] == m.group(1).strip() for fc in r.failed_checks):
                r.failed_checks.append((m.group(1).strip(), ""))
        if any("not currently supported by Kani" in c[0] or "unsupported construct" in c[0].lower() for c in r.failed_checks):
            # an unsupported construct is reachable: tool limit, nothing was refuted
            r.status = "undecided"
        if re.search(r"unwinding assertion", txt):
            r.unwinding_failure = True
        m = re.search(r"Verification Time: ([\d.]+)s", txt)
        if m:
            r.time_s = float(m.group(1))
        m = re.search(r"\*\* (\d+) of (\d+) cover properties satisfied", txt)
        if m:
            r.covers = (int(m.group(1)), int(m.group(2)))
        r.stubs = re.findall(r"- Stub: (.*)", txt)
        pm = re.search(r"let concrete_vals: Vec<Vec<u8>> = vec!\[(.*?)\n\s*\];", txt, re.S)
        if pm:
            r.playback = [[int(x) for x in v.split(",") if x.strip()] for v in re.findall(r"vec!\[([^\]]*)\]", pm.group(1))]
        results[name.split("::")[-1]] = r
    return results


class KaniRun:
    def __init__(self):
        self.results = {}
        self.tool_error = None
        self.wall_s = 0
        self.cmd = ""
        self.harnesses = []
        self.annotations = 0
        self.compile_log = ""
        self.scratch = None


def run(harness_files, pattern, annotations=(), use_map_shim=False, map_shim_files=(), timeout_s=1500,
        harness_timeout="600s", jobs=None, keep=False, extra_args=(), mem_gb=40, inject=(), playback=True):
    """Compile the scratch copy with the harness modules and run all harnesses matching `pattern`."""
    kr = KaniRun()
    t0 = time.time()
    try:
        ensure_kani_cache()
    except Exception as e:
        kr.tool_error = f"kani cache: {e}"
        return kr
    d = scratch_root()
    kr.scratch = d
    try:
        dst = os.path.join(d, "repo")
        try:
            kr.harnesses, kr.annotations = prepare_copy(dst, harness_files, annotations, use_map_shim, inject=inject)
            if use_map_shim:
                apply_map_shim(dst, map_shim_files)
        except AnchorError as e:
            kr.tool_error = f"ANCHOR-LOST: {e}"
            return kr
        tgt = os.path.join(d, "target")
        subprocess.run(["cp", "-a", KANI_TARGET, tgt], check=True)
        cmd = ["cargo", "kani", "-Z", "function-contracts", "-Z", "stubbing", "-Z", "unstable-options",
               "--harness-timeout", harness_timeout, "--output-format", "terse", "--target-dir", tgt,
               "-j", str(jobs or NCPU)] + list(extra_args)
        for p in (pattern if isinstance(pattern, (list, tuple)) else [pattern]):
            cmd += ["--harness", p]
        kr.cmd = " ".join(cmd)
        out = _run_limited(cmd, dst, timeout_s, mem_gb)
        if out is None:
            kr.tool_error = f"cargo kani exceeded wall-clock limit {timeout_s}s"
            return kr
        kr.compile_log = out
        if re.search(r"error(\[E\d+\])?: ", out) and "Checking harness" not in out:
            errs = re.findall(r"(error(?:\[E\d+\])?: .*(?:\n\s+--> .*)?)", out)
            kr.tool_error = "COMPILE: " + " || ".join(errs[:4])
            return kr
        if "Kani unexpectedly panicked" in out or "internal compiler error" in out:
            kr.tool_error = "KANI-ICE: " + out[-1500:]
            return kr
        kr.results = parse_kani_output(out)
        # playback for failed harnesses (sequential; incompatible with -j)
        failed = [n for n, r in kr.results.items() if r.status == "failed"]
        if playback and failed:
            from concurrent.futures import ThreadPoolExecutor

            def _pb(n):
                cmd2 = ["cargo", "kani", "-Z", "function-contracts", "-Z", "stubbing", "-Z", "concrete-playback",
                        "--concrete-playback=print", "--output-format", "terse", "--target-dir", tgt,
                        "--harness", n, "--exact"] + list(extra_args)
                # the failing run took time_s; give the playback run a few times that, at most 10 minutes
                lim = min(600, max(120, int(4 * (kr.results[n].time_s or 60)) + 60))
                return n, _run_limited([c for c in cmd2 if c != "--exact"], dst, lim, mem_gb)
            with ThreadPoolExecutor(max_workers=4) as ex:
                for n, o2 in ex.map(_pb, failed[:6]):
                    if o2:
                        r2 = parse_kani_output(o2).get(n)
                        if r2 and r2.playback is not None:
                            kr.results[n].playback = r2.playback
                            kr.results[n].raw += "\n--- playback run ---\n" + r2.raw
        if keep:
            kr.keep_dst = dst
    finally:
        kr.wall_s = time.time() - t0
        if not keep:
            shutil.rmtree(d, ignore_errors=True)
    return kr


def _kill_largest_in_group(pgid):
    """SIGKILL the process with the largest resident set among the solver processes (cbmc, kissat, goto-*) of process group `pgid`."""
    import signal
    best = (0, None)
    for pid in os.listdir("/proc"):
        if not pid.isdigit():
            continue
        try:
            st = open(f"/proc/{pid}/stat").read()
            comm = st[st.index("(") + 1:st.rindex(")")]
            fields = st[st.rindex(")") + 2:].split()
            if int(fields[2]) != pgid or not comm.startswith(("cbmc", "kissat", "goto-", "cadical")):
                continue
            rss = int(fields[21])
            if rss > best[0]:
                best = (rss, int(pid))
        except Exception:
            continue
    if best[1]:
        try:
            os.kill(best[1], signal.SIGKILL)
            MEMORY_KILLS.append(best[1])
        except Exception:
            pass


MEMORY_KILLS = []


def _run_limited(cmd, cwd, timeout_s, mem_gb):
    """Run in its own process group with a wall-clock limit and a per-process address-space limit (prlimit);
    on timeout the whole group (cargo, kani-driver, cbmc, kissat ...) is killed.  Returns combined output or None."""
    import signal
    import tempfile
    full = ["prlimit", f"--as={int(mem_gb * 1024**3)}"] + cmd
    with tempfile.TemporaryFile(mode="w+") as out:
        p = subprocess.Popen(full, cwd=cwd, env=ENV, stdout=out, stderr=subprocess.STDOUT, start_new_session=True)
        # wait with a memory watchdog: a changed tree can make single CBMC runs grow without bound (measured: two at 27 GB each
        # after `insert` was re-routed through the entry API); before the machine runs out of memory the largest solver process of
        # THIS run is killed -- its harness is then reported as undecided (tool limit), never as a violation
        deadline = time.time() + timeout_s
        timed_out = False
        while True:
            try:
                p.wait(timeout=2)
                break
            except subprocess.TimeoutExpired:
                pass
            if time.time() > deadline:
                timed_out = True
                break
            try:
                avail_kb = next(int(l.split()[1]) for l in open("/proc/meminfo") if l.startswith("MemAvailable"))
                if avail_kb < 6 * 1024 * 1024:
                    _kill_largest_in_group(p.pid)
            except Exception:
                pass
        if timed_out or True:
            # make sure nothing of the group survives (orphaned cbmc would keep eating CPU)
            try:
                os.killpg(p.pid, signal.SIGKILL)
            except Exception:
                pass
            try:
                p.wait(timeout=10)
            except Exception:
                pass
        if timed_out:
            return None
        out.seek(0)
        return out.read()


def ensure_replay_cache():
    """Native (--cfg verif_replay) dependency build, once (setup_cmd); reused by replays and native stand-ins."""
    ensure_backtrace_patch()
    stamp = os.path.join(REPLAY_TARGET, ".verif-warm")
    if os.path.isfile(stamp):
        return
    d = scratch_root()
    try:
        dst = os.path.join(d, "repo")
        prepare_copy(dst, [], (), False)
        with Lock("replay-target"):
            env = dict(ENV, RUSTFLAGS="--cfg verif_replay -Awarnings", CARGO_TARGET_DIR=REPLAY_TARGET)
            b = subprocess.run(["cargo", "build", "--offline", "--example", "verif_replay"], cwd=dst, env=env,
                               capture_output=True, text=True, timeout=3600)
            if b.returncode == 0:
                open(stamp, "w").write(time.ctime())
    finally:
        shutil.rmtree(d, ignore_errors=True)


def native_replay(harness_files, harness, vals, watchdog_s=20, annotations=(), inject=()):
    """Build the scratch copy natively with --cfg verif_replay (real std HashMap, no shim, no Kani) and run
    the harness with the recorded values.  Returns (reproduced: bool|None, output)."""
    ensure_backtrace_patch()
    d = scratch_root()
    try:
        dst = os.path.join(d, "repo")
        prepare_copy(dst, harness_files, (), False, inject=inject)
        with Lock("replay-target"):
            env = dict(ENV, RUSTFLAGS="--cfg verif_replay -Awarnings", CARGO_TARGET_DIR=REPLAY_TARGET)
            b = subprocess.run(["cargo", "build", "--offline", "--example", "verif_replay"], cwd=dst, env=env,
                               capture_output=True, text=True, timeout=1800)
            if b.returncode != 0:
                return None, "replay build failed:\n" + b.stderr[-3000:]
            exe = os.path.join(d, "verif_replay")
            shutil.copy(os.path.join(REPLAY_TARGET, "debug", "examples", "verif_replay"), exe)
        args = [exe, harness] + [",".join(str(b) for b in v) if v else "-" for v in (vals or [])]
        try:
            r = subprocess.run(args, capture_output=True, text=True, timeout=watchdog_s)
        except subprocess.TimeoutExpired:
            return True, f"WATCHDOG: harness did not terminate within {watchdog_s}s (non-termination reproduced)"
        out = r.stdout + r.stderr
        if r.returncode == 0 and "VERIF-REPLAY-PASSED" in r.stdout:
            return False, out
        if r.returncode in (3, 4, 5):
            return None, out
        return True, out
    finally:
        shutil.rmtree(d, ignore_errors=True)


def native_bounded(harness_files, names, inject=(), watchdog_s=300):
    """Bounded stand-in (NOT a proof): build the scratch copy natively (--cfg verif_replay, real std) and run exhaustive
    enumeration harnesses.  Returns {name: (ok: bool|None, output)}."""
    ensure_backtrace_patch()      # a fresh checkout without `./check setup`: the patched dependency must exist before any native build
    d = scratch_root()
    out = {}
    try:
        dst = os.path.join(d, "repo")
        prepare_copy(dst, harness_files, (), False, inject=inject)
        with Lock("replay-target"):
            env = dict(ENV, RUSTFLAGS="--cfg verif_replay -Awarnings", CARGO_TARGET_DIR=REPLAY_TARGET)
            b = subprocess.run(["cargo", "build", "--offline", "--example", "verif_replay"], cwd=dst, env=env,
                               capture_output=True, text=True, timeout=1800)
            if b.returncode != 0:
                return {n: (None, "native build failed:\n" + b.stderr[-2500:]) for n in names}
            exe = os.path.join(d, "verif_replay")
            shutil.copy(os.path.join(REPLAY_TARGET, "debug", "examples", "verif_replay"), exe)
        for n in names:
            try:
                r = subprocess.run([exe, n], capture_output=True, text=True, timeout=watchdog_s)
            except subprocess.TimeoutExpired:
                out[n] = (None, f"native harness exceeded {watchdog_s}s")
                continue
            ok = r.returncode == 0 and "VERIF-REPLAY-PASSED" in r.stdout
            txt = r.stdout + r.stderr
            if len(txt) > 3000:    # the harness prints its COUNTEREXAMPLE / panic message first, the backtrace last
                txt = txt[:1800] + "\n...\n" + txt[-1200:]
            out[n] = (ok if r.returncode not in (3, 4, 5) else None, txt)
    finally:
        shutil.rmtree(d, ignore_errors=True)
    return out
