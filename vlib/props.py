"""Unit tables: which contracts/harnesses decide which property.  Declarative; no logic."""

PROPS = {
    "C05": dict(
        level="proof",
        explanation=("Every method of the real `Individual` (extracted verbatim each run) carries a Verus contract over the "
                     "two-field view (solution, objective); collection helpers are checked by Kani Hoare triples at "
                     "enumerated lengths (bounded, listed)."),
        verus=[dict(name="individual", template="contracts/C05/individual.vrs",
                    expect=["Individual<P>::solution_mut", "Individual<P>::evaluate_with", "Individual<P>::set_objective",
                            "<Individual<P> as Clone>::clone"])],
        kani=[],
        min_obligations={"quick": 11, "thorough": 11},
        uncovered=["'after every component execution of every shipped heuristic' (whole runs) is not decided by per-function contracts"],
        assumptions=["Clone/PartialEq of the encoding and objective types behave as vstd's `cloned` / spec eq",
                     "fields `solution`/`objective` are private and only written in src/problems/individual.rs (scan)"],
    ),
    "C09": dict(
        level="proof",
        explanation=("Hoare-triple harnesses on the real SingleObjective/MultiObjective, discharged by CBMC over full-domain "
                     "symbolic f64 inputs (all bit patterns). SingleObjective harnesses are loop-free (complete); "
                     "MultiObjective harnesses are complete per vector length (lengths listed as bounds)."),
        verus=[],
        kani=[dict(files=["contracts/C09/c09.rs"])],
        min_obligations={"quick": 15, "thorough": 20},
        assumptions=["CBMC's IEEE-754 float model", "derive_more operator derives compiled as in the real build"],
    ),
}
