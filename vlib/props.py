"""Unit tables: which contracts/harnesses decide which property.  Declarative; no logic."""

B = "BOUNDED STAND-IN, native run: 19 shipped templates (all but the two ACO ones; the GA also with an odd population and a whole-population tournament, the firefly algorithm also without randomisation and attraction) x (3 seeds x 15 iterations + 30 seeds x {1, 2, 3, 6} iterations) on small recording problems; "
PROPS = {
    "C05": dict(
        level="other",
        explanation=("Every method of the real `Individual` (extracted verbatim each run) carries a Verus contract over the "
                     "two-field view (solution, objective); collection helpers are checked by Kani Hoare triples at "
                     "enumerated lengths (bounded, listed)."),
        verus=[dict(name="individual", template="contracts/C05/individual.vrs",
                    expect=["Individual<P>::solution_mut", "Individual<P>::evaluate_with", "Individual<P>::set_objective",
                            "<Individual<P> as Clone>::clone"])],
        kani=[dict(files=["contracts/C05/c05.rs"])],
        native=[dict(files=["contracts/C05/c05_native.rs"],
                     harnesses={"c05_native_components_keep_objectives_fresh": dict(anchor="solution-editing components on evaluated individuals",
                                bound="BOUNDED STAND-IN, native run: 4 boundary-repair and 4 real / 1 bit / 2 permutation mutation components on evaluated populations (coordinates inside, on, a hair outside and clearly outside the domain) x 8 seeds; Uniform / 1-point / Arithmetic / Cycle crossover on 2, 5, 6, 9 evaluated parents x pc in {0, 0.3, 0.5, 0.8, 1} x one or both children x 12 seeds; the black-hole particle update on evaluated particles with and without ties for the best value x 12 seeds")}),
                dict(files=["contracts/C07/whole_run_native.rs"],
                     harnesses={"c05_native_whole_runs": dict(anchor="whole runs of the shipped templates (final state)",
                                bound=B + "every evaluated individual on the final population stack and the best-so-far carry f(solution)")})],
        min_obligations={"quick": 20, "thorough": 20},
        uncovered=["'after every component execution of every shipped heuristic' (whole runs) is not decided by per-function contracts"],
        assumptions=["Clone/PartialEq of the encoding and objective types behave as vstd's `cloned` / spec eq",
                     "fields `solution`/`objective` are private and only written in src/problems/individual.rs (scan)"],
    ),
    "C09": dict(
        level="other",
        explanation=("Hoare-triple harnesses on the real SingleObjective/MultiObjective, discharged by CBMC over full-domain "
                     "symbolic f64 inputs (all bit patterns). SingleObjective harnesses are loop-free (complete); "
                     "MultiObjective harnesses are complete per vector length (lengths listed as bounds)."),
        verus=[],
        kani=[dict(files=["contracts/C09/c09.rs", "contracts/C09/c09_contracts.rs"],
                   annotations=[dict(file="src/problems/objective/single.rs", impl="impl TryFrom<f64> for SingleObjective", fn="try_from", attrs=[
                       "kani::ensures(|r: &Result<SingleObjective, IllegalObjective>| r.is_err() == (value.is_nan() || value == f64::NEG_INFINITY))",
                       "kani::ensures(|r: &Result<SingleObjective, IllegalObjective>| match r { Ok(v) => v.value().to_bits() == value.to_bits(), Err(_) => true })",
                   ])])],
        min_obligations={"quick": 19, "thorough": 19},
        assumptions=["CBMC's IEEE-754 float model", "derive_more operator derives compiled as in the real build"],
    ),
}

PROPS["C04"] = dict(
    level="other",
    explanation=("Verus: every method of the real `Populations` (extracted verbatim each run) against view() = Seq of populations, "
                 "whole-view postconditions; lemma: n rotations of the top n restore the order (unbounded). Kani: the same "
                 "contracts as Hoare triples at concrete heights (listed) with symbolic tags/depths against real std (checks the "
                 "assumed rotate_right / range-index specs and yields replayable counterexamples)."),
    verus=[dict(name="populations", template="contracts/C04/populations.vrs",
                expect=["Populations<P>::rotate", "Populations<P>::try_peek", "Populations<P>::try_pop", "Populations<P>::pop",
                        "Populations<P>::push", "Populations<P>::current_mut", "template::lemma_n_rotations_restore"])],
    kani=[dict(files=["contracts/C04/c04.rs"])],
    native=[dict(files=["contracts/C04/c04_native.rs"],
                 harnesses={"c04_native_utility_components": dict(anchor="ClearPopulation / DuplicatePopulation / InterleavePopulations / SplitPopulationByObjectiveValue",
                            bound="BOUNDED STAND-IN, native exhaustive enumeration: every stack of height 1..3 with populations of 0..3 tagged individuals (84 stacks) x 4 utility components, the whole stack afterwards compared with a plain-Vec model")})],
    min_obligations={"quick": 28, "thorough": 28},
    uncovered=["RotatePopulations::execute guard (State-based; see C03/C12 glue)"],
    assumptions=["slice::rotate_right(k) moves the last k elements to the front (assumed in Verus, checked by the Kani triples at heights <= 4)",
                 "Vec range IndexMut == as_mut_slice()[range] (closed-list rewrite)"],
)

PROPS["C03"] = dict(
    level="proof",
    explanation=("Each control-flow node of the real code (Block, Branch, Loop, Scope, Configuration::run, State::with_inner_state) "
                 "is extracted verbatim each run and verified by Verus against the structured-program meaning of that node, with "
                 "children ARBITRARY (uninterpreted functions of problem and state): the induction step of a structural induction "
                 "over configuration trees. Unbounded in tree size, loop trip count, children's behaviour."),
    verus=[dict(name="block", template="contracts/C03/block.vrs",
                expect=["<Block<P> as Component<P>>::init", "<Block<P> as Component<P>>::require", "<Block<P> as Component<P>>::execute"]),
           dict(name="branch_loop", template="contracts/C03/branch_loop.vrs",
                expect=["<Branch<P> as Component<P>>::execute", "<Loop<P> as Component<P>>::execute", "<Loop<P> as Component<P>>::init",
                        "template::lemma_bounded_loop_makes_exactly_n_passes"]),
           dict(name="scope", template="contracts/C03/scope.vrs", expect=["<Scope<P> as Component<P>>::execute"]),
           dict(name="run", template="contracts/C03/run.vrs", expect=["Configuration<P>::run"]),
           dict(name="inner_state", template="contracts/C03/inner_state.vrs", expect=["State<'a, P>::with_inner_state"]),
           dict(name="builder", template="contracts/C03/builder.vrs",
                expect=["ConfigurationBuilder<P>::while_", "ConfigurationBuilder<P>::if_else_", "ConfigurationBuilder<P>::scope_",
                        "ConfigurationBuilder<P>::build"])],
    kani=[],
    min_obligations={"quick": 26, "thorough": 26},
    uncovered=["the node constructors Loop::new / Branch::new / Block::new / Scope::new themselves (abstract node terms in the builder unit); do_many_",
               "the meta-step 'node obligations => all trees' is structural induction, stated not machine-checked",
               "Loop::execute is proved for partial correctness (a loop over an arbitrary condition need not terminate)"],
    assumptions=["children are deterministic functions of (problem, state) (randomness lives in the state)",
                 "Loop pass counter does not overflow u32 along the run (precondition; debug builds panic, release wraps)",
                 "Scope's fn-pointer fields mirrored as opaque callables (Verus has no fn-pointer types)",
                 "registry scope operations new/into_child/into_parent as contracted in preamble/registry_scopes.rs (C01 discharges them with Kani)"],
)
PROPS["C07"] = dict(
    level="other",
    explanation=("Verus: BestIndividual::update extracted verbatim, contract 'replaced iff none yet or candidate strictly better; result "
                 "never worse than before nor than the candidate' over an abstract total order whose laws are C09's obligations. "
                 "Kani: population best / archive kernels at enumerated sizes."),
    verus=[dict(name="best_individual", template="contracts/C07/best_individual.vrs",
                expect=["BestIndividual<P>::update", "BestIndividual<P>::new"]),
           dict(name="update_exec", template="contracts/C07/update_exec.vrs", expect=["<BestIndividualUpdate as Component<P>>::execute"]),
           dict(name="archive_into_population", template="contracts/C07/archive_into_population.vrs",
                expect=["impl<P> Component<P> for ElitistArchiveIntoPopulation::execute"]),
           dict(name="archive_update", template="contracts/C07/archive_update.vrs", expect=["ElitistArchive<P>::update", "ElitistArchive<P>::new", "ElitistArchive<P>::elitists"])],
    kani=[dict(files=["contracts/C07/c07.rs"], inject=[dict(file="contracts/C07/c07_archive.rs", into="src/components/archive.rs")])],
    native=[dict(files=["contracts/C07/whole_run_native.rs"],
                 harnesses={"c07_native_whole_runs": dict(anchor="whole runs of the shipped templates (reported best)",
                            bound=B + "best reported at the end == minimum value the objective function returned; plus 24 CRO runs (12 seeds x 2 energy settings, 50 iterations) in which reactions are rejected for lack of energy"),
                            "c07_native_template_structure": dict(anchor="shipped templates: component trees (every evaluation step is directly followed by a best-individual update)",
                            bound="BOUNDED STAND-IN, native structural check: the component tree each of the 19 shipped template constructors builds (one parameter set each), rendered through the crate's RON serialisation")}),
            dict(files=[], inject=[dict(file="contracts/C07/c07_archive_native.rs", into="src/components/archive.rs")],
                 harnesses={"c07_native_archive_histories": dict(anchor="ElitistArchive::update (histories)",
                            bound="BOUNDED STAND-IN, native exhaustive enumeration: all 3-update histories with populations of 0..2 individuals, objective values in {1,2,3}, capacities 0..4 (10985 histories)")})],
    min_obligations={"quick": 87, "thorough": 87},
    uncovered=["whole-run clause 'reported best = minimum returned' (placement of updates in templates)"],
    assumptions=["SingleObjective order laws (preamble/objective.rs) = C09 obligations"],
)

PROPS["C08"] = dict(
    level="other",
    explanation=("Verus: Configuration::optimize_with / optimize extracted verbatim: the state handed to run() is exactly what the user's "
                 "initialiser left if it contains a generator (never replaced), else that state plus one default generator. The 2-safety and "
                 "schedule clauses (same seed => same run, sequential vs parallel, cloned configuration, child generators) are decided only by "
                 "a bounded native run of the shipped templates."),
    verus=[dict(name="optimize", template="contracts/C08/optimize.vrs", expect=["Configuration<P>::optimize_with", "Configuration<P>::optimize"])],
    kani=[],
    native=[dict(files=["contracts/C07/whole_run_native.rs", "contracts/C08/c08_native.rs"],
                 harnesses={"c08_native_determinism": dict(anchor="whole runs of the shipped templates (determinism) + Random",
                            bound="BOUNDED STAND-IN, native run: 19 shipped templates x seeds {1,2} x {sequential twice, cloned configuration, parallel evaluator 3 times}, 8 iterations; the 13 real-valued templates also re-used across two problem instances (3-dim narrow / 5-dim wide domain, both orders): used vs fresh configuration object, clone of a used configuration; generator and child-generator streams for 4 seeds; Sequential vs Parallel evaluate on populations of 0..5 with every mix of pre-evaluated individuals"),
                            "c08_native_experiment_runner": dict(anchor="experiments::par_experiment (user-supplied generator, default seeding)",
                            bound="BOUNDED STAND-IN, native run: par_experiment with 4 runs x setup closures inserting no generator / Random::new(777) / Random::new(0): (seed, first draw) seen by each run")})],
    min_obligations={"quick": 4, "thorough": 4},
    uncovered=["thread-schedule independence beyond the schedules rayon happens to produce in 3 repetitions", "the two ACO templates",
               "RandomIter::next / Random::with_rng under contract (struct holding &mut / fn-pointer closure: Verus rejects)"],
    assumptions=["Random::default() is modelled as one unknown value per execution (both functions call it at most once)",
                 "State::insert / contains as in the C01 registry contracts; Configuration::run as proved by the C03 unit"],
)

PROPS["C16"] = dict(
    level="other",
    explanation=("Contract part: Loop::execute (real body) tests its condition before every pass and counts completed passes, and the lemma "
                 "'a loop whose condition is iterations < n and whose body leaves the counter alone makes exactly n passes' (Verus, unbounded); "
                 "LessThanN::evaluate decides value < n. Completion without error, the balanced stack and the population size of whole template "
                 "runs are decided only by a bounded native run of the shipped templates."),
    verus=[dict(name="branch_loop", template="contracts/C03/branch_loop.vrs",
                expect=["<Loop<P> as Component<P>>::execute", "<Loop<P> as Component<P>>::init", "template::lemma_bounded_loop_makes_exactly_n_passes"]),
           dict(name="less_than_n", template="contracts/C10/less_than_n.vrs", expect=["impl<P, L> Condition<P> for LessThanN<L>::evaluate"])],
    kani=[],
    native=[dict(files=["contracts/C07/whole_run_native.rs"],
                 harnesses={"c16_native_whole_runs": dict(anchor="whole runs of the shipped templates (completion, iterations, stack, size)",
                            bound=B + "runs without error, performs exactly the requested iterations, one population at the end, prescribed population size"),
                            "c16_native_stack_per_pass": dict(anchor="shipped templates: population-stack height at every loop test",
                            bound="BOUNDED STAND-IN, native run: 19 shipped templates + 36 corner parameter sets x 3 seeds x 6 iterations, the termination condition wrapped in a probe recording the stack height at each test"),
                            "c16_native_parameter_corners": dict(anchor="shipped real-valued templates at the edges of their parameter ranges",
                            bound="BOUNDED STAND-IN, native run: 36 parameter sets accepted by the constructors (one individual, selection size = population size, probabilities 0 and 1, lambda < mu, population = 2y for DE, ...) x 4 seeds x 6 iterations on two problem instances")})],
    min_obligations={"quick": 12, "thorough": 12},
    uncovered=["the two ACO templates", "other problem instances and parameter sets than the ones run"],
    assumptions=["abstract-children mirror of Component/Condition; value-state mirror (C01/C02 contracts)"],
)

PROPS["C18"] = dict(
    level="other",
    explanation=("Contract part (the interpolation clause): Linear::execute is mapping() with its own input and output lens and mapping() reads "
                 "once, maps once, assigns once (Verus, unbounded); Linear::map = (end - start) * value + start (Kani). Velocity clamp, "
                 "position update, personal / global best memories and collection sizes live in State-based multizip/f64 bodies: bounded "
                 "native runs of the real PSO template with probes between its components."),
    verus=[dict(name="linear", template="contracts/C18/linear.vrs", expect=["mapping", "<Linear<I, O> as Component<P>>::execute"])],
    kani=[dict(files=["contracts/C18/c18.rs"])],
    native=[dict(files=["contracts/C07/whole_run_native.rs", "contracts/C18/c18_native.rs"],
                 harnesses={"c18_native_swarm": dict(anchor="PSO components (velocity update, inertia weight, personal/global best)",
                            bound="BOUNDED STAND-IN, native run: real PSO template with probes, 12 iterations x 4 seeds x 2 objective scales (1 and 1e-18) x 8 parameter sets (decreasing, increasing and constant weight schedules, weights from 0 to 1.5; five with c1 = c2 = 0 to observe the stored inertia weight, three of them with weights above 1; one with a single particle)"),
                            "c18_native_shipped_template": dict(anchor="heuristics::pso::real_pso (final-state memories)",
                            bound="BOUNDED STAND-IN, native run: the shipped real_pso template, 6 parameter sets (ordinary, social-only c_one = 0, cognitive-only c_two = 0, no attraction, one particle, one iteration) x 6 seeds: personal bests vs last evaluated positions, global best = best personal best, one memory per particle, velocity bounds")})],
    min_obligations={"quick": 7, "thorough": 7},
    uncovered=["the velocity formula itself with non-zero c1, c2 (random draws)", "Linear::map for symbolic weights (CBMC does not finish: two float multiply-add chains); only the pairs (0.9, 0.4), (0.4, 0.9)"],
    assumptions=["lens / mapping mirrors (arbitrary functions of problem and state)", "CBMC's IEEE-754 model"],
)

PROPS["C19"] = dict(
    level="other",
    explanation=("Contract part: the pheromone-matrix kernel (PheromoneMatrix::new / Index / IndexMut / MulAssign) as Kani Hoare triples: "
                 "a fresh matrix holds the initial value everywhere, pm[i][j] addresses entry (i, j) alone, `*pm *= f` multiplies EVERY "
                 "trail by f. Tour generation (WeightedIndex sampling, powf) and the two update components live in State-based bodies: "
                 "bounded native runs on small TSP instances, each update compared with an independently computed expectation."),
    verus=[],
    kani=[dict(files=["contracts/C19/c19.rs"])],
    native=[dict(files=["contracts/C19/c19_native.rs"],
                 harnesses={"c19_native_ant_colony": dict(anchor="AcoGeneration / AsPheromoneUpdate / MinMaxPheromoneUpdate",
                            bound="BOUNDED STAND-IN, native run: 8 TSP instances (5 and 6 cities at length scales 1, 0.01 / 1e-4, 1000 and 1e200; 2 and 3 cities) x 4 seeds x {ant system with alpha in {1, 0, 0.25, 2}, max-min with initial trails inside / above / below the bounds} x 25 generation + evaluation + update steps")})],
    min_obligations={"quick": 2, "thorough": 2},
    uncovered=["'for every pheromone state the algorithm can reach' beyond the states reached in the runs", "the sampling distribution of the tours",
               "evaporation with a symbolic factor (CBMC does not finish: float multipliers); factors {1, 0.5, 0.75, 0}"],
    assumptions=["CBMC's IEEE-754 model"],
)

NOT_YET = "not claimed yet in this commit: unit under construction (see DESIGN.md §4 for the planned contracts)"
NOT_APPLICABLE = {
    "C20": "energy conservation 'up to rounding' needs real arithmetic over f64 (uninterpreted in Verus) inside State-based execute bodies using .iter().position(closure) (DESIGN.md §6)",
}

MANIFEST_TEXT = {
    "C05": dict(
        category="other",
        technique="Verus contracts on the real Individual methods (extracted verbatim each run) + Kani triples on copy paths and collection helpers",
        text=("Every method of `Individual` is extracted verbatim from /repo on each run and verified by Verus against a contract "
              "over the view (solution, objective): solution_mut clears the objective and hands out exactly the solution; "
              "evaluate_with stores the function's result for the unchanged solution; readers and clone keep both fields "
              "together. Unbounded (all encodings, all objective values, all objective functions). Copy paths Verus cannot enter "
              "(Clone::clone_from, Vec::clone_from) and the collection helpers (as_solutions_mut, into_individuals, into_solutions) are "
              "Kani Hoare triples at sizes <= 2, hence level 'other'."),
        note=("Trusted: mirror of the Problem trait (associated types only), vstd specs of Option/Clone. The clause about every "
              "step of every shipped heuristic is NOT decided (whole runs); listed under uncovered_clauses in the evidence."),
    ),
    "C03": dict(
        category="proof",
        technique="Verus contracts on the real control-flow nodes against abstract (uninterpreted) children",
        text=("Block/Branch/Loop/Scope (init, require, execute), Configuration::run and State::with_inner_state are extracted verbatim "
              "from /repo each run; each is proved by Verus to compute exactly the structured-program meaning of its node for "
              "ARBITRARY children, conditions, scope hooks and closures (lifecycle init;require;execute, first-error-stops, loop "
              "re-initialises and tests its condition before every pass and counts completed passes, scope closed on success and "
              "on error). Unbounded; all trees follow by structural induction (the induction itself is not machine-checked)."),
        note=("Trusted: abstract-children mirror (traits Component/Condition with uninterpreted per-phase functions), opaque State, "
              "&mut-mirror of the counter access, mirrored Scope struct (fn pointers), registry scope contracts (discharged by C01), "
              "closed-list extraction rewrites (listed in evidence). Loop: partial correctness; counter overflow excluded by precondition."),
    ),
    "C07": dict(
        category="other",
        technique="Verus contract on the real BestIndividual::update over an abstract total order + Kani kernels",
        text=("BestIndividual::update is extracted verbatim and proved (unbounded) to replace the stored individual iff there was none "
              "or the candidate is strictly better, storing a copy of the candidate, and to end with a best that is no worse than "
              "before and no worse than the candidate. Kernel harnesses (population minimum, elitist archive) are bounded Kani triples."),
        note="Trusted: SingleObjective mirrored as an abstract total order (laws = C09 obligations); Individual contracts (C05). Whole-run clause uncovered.",
    ),
    "C04": dict(
        category="other",
        technique="Verus contracts on the real Populations methods over a Seq view + Kani Hoare triples at concrete heights",
        text=("All 13 Populations methods are extracted verbatim and proved by Verus against whole-view Seq postconditions for all "
              "stack heights and contents (unbounded), plus the lemma that n rotations of the top n restore the order. Because the "
              "Verus proof of rotate rests on an assumed spec of slice::rotate_right, the same contracts are also discharged "
              "bit-precisely by Kani at heights <= 4 (bounded, listed) on the real std code; hence level 'other', not 'proof'."),
        note="Trusted: vstd Vec/Option specs, assumed rotate_right spec, closed-list rewrite vec[a..b] -> vec.as_mut_slice()[a..b]; Kani part bounded by height.",
    ),
    "C09": dict(
        category="other",
        technique="Kani/CBMC Hoare triples over full-domain symbolic f64 on the real SingleObjective/MultiObjective",
        text=("Construction, total order, min/max/sort and operator closure of SingleObjective are decided for all 2^64 bit patterns "
              "per argument by loop-free harnesses (complete). MultiObjective construction and Pareto-order laws are decided for "
              "all values at vector lengths 0..3 (length is the only bound; evidence lists it, and then reports level=other). "
              "The five operator-closure obligations fail on the unchanged tree and are recorded as known findings with witnesses."),
        note="Trusted: CBMC's IEEE-754 model, Kani's translation of the derive_more operator impls. Vector length <= 3 (thorough) / <= 2 pairs (quick).",
    ),
}

PROPS["C13"] = dict(
    level="other",
    explanation=("Hoare triples on the real functional helpers (mutation/functional.rs, recombination/functional.rs) discharged by "
                 "CBMC at concrete lengths with symbolic contents and index tuples under the functions' documented preconditions."),
    verus=[dict(name="params", template="contracts/C13/params.vrs", expect=["SwapMutation::from_params"])],
    kani=[dict(files=["contracts/C13/c13.rs"])],
    native=[dict(files=["contracts/C13/c13_native.rs"],
                 harnesses={"c13_native_recombination_counts": dict(anchor="recombination",
                            bound="BOUNDED STAND-IN, native run: 0..7 parents x pc in {0,1} x insert-one/both x 4 seeds x {uniform, 2-point} crossover"),
                            "c13_native_permutation_mutations": dict(anchor="mutation components (permutation)",
                            bound="BOUNDED STAND-IN, native run: Scramble(rm 0/1), Inversion, Insertion, Translocation, Swap(2..4) x solution length 2..6 x population size 0..3 x 64 seeds"),
                            "c13_native_de_operators": dict(anchor="DE variation components",
                            bound="BOUNDED STAND-IN, native run: DEMutation y in {1,2} x f in {0,0.5,2} x population sizes 0..3(2y+1) x dimension 1..3; DE binomial/exponential crossover x pc in {0,0.5,1} x 0..3 pairs x 32 seeds"),
                            "c13_native_crossover_genes": dict(anchor="crossover components",
                            bound="BOUNDED STAND-IN, native run: Uniform/1-,2-,3-point/Arithmetic crossover x insert-one/both x 64 seeds on fixed parents; CycleCrossover on all 576 pairs of length-4 permutations"),
                            "c13_native_kernels": dict(anchor="circular_swap / translocate_slice / cycle_crossover / arithmetic_crossover (kernels)",
                            bound="BOUNDED STAND-IN, native exhaustive enumeration: circular swap (both implementations) every tuple of 2..4 distinct indices on lengths 2..6; translocate (both implementations) all valid cases at lengths 1..6; cycle crossover all pairs of permutations of length 1..5; arithmetic formula and convexity on a 15 x 15 x 10 value grid incl. subnormals"),
                            "c13_native_value_mutations": dict(anchor="mutation components (real, bit)",
                            bound="BOUNDED STAND-IN, native run: Normal/Uniform/PartialRandomSpread and BitFlip/PartialRandomBitstring x rm in {0, 0.5, 1} x dimension 1..4 x population size 0..3 x 32 seeds")})],
    min_obligations={"quick": 16, "thorough": 16},
    uncovered=["mutation components' execute (State + RNG)", "recombination() driver is only covered by a BOUNDED native run", "real/bit mutations gated by the rate"],
)
PROPS["C14"] = dict(
    level="other",
    explanation=("Hoare triples on the real BoundaryConstraint::constrain implementations, one coordinate, domain and coordinate "
                 "symbolic f64 within the stated regime; termination by unwinding assertion."),
    verus=[dict(name="init_driver", template="contracts/C14/init_driver.vrs", expect=["initialization"])],
    kani=[dict(files=["contracts/C14/c14.rs"])],
    native=[dict(files=["contracts/C14/c14_native.rs"],
                 harnesses={"c14_native_initialisation": dict(anchor="random_spread",
                            bound="BOUNDED STAND-IN, native run: 40 seeds x sizes 0..4 x 6 domain vectors (incl. domains 1-3 representable numbers wide; membership as Range::contains, i.e. the upper bound excluded) / dimensions 0..5 for random_spread, random_permutation, random_bitstring"),
                            "c14_native_components": dict(anchor="initialisation and boundary-repair components",
                            bound="BOUNDED STAND-IN, native run: RandomSpread/RandomPermutation/RandomBitstring/Empty components x sizes {0,1,2,7} x 16 seeds; Saturation/Toroidal/Mirror/CompleteOneTailedNormalCorrection components on a 27-point grid per coordinate (up to 1e6 widths outside, every half width up to 5) x 3 domains x 8 seeds (160 for the resampling operator), on unevaluated and on already evaluated individuals (bounds, unchanged-inside, idempotence)")})],
    min_obligations={"quick": 39, "thorough": 39},
    uncovered=["initialisation operators (rejection-sampling loops over a symbolic RNG are unbounded)", "resampling distribution",
               "boundary_constraint driver over populations"],
)

PROPS["C12"] = dict(
    level="other",
    explanation=("Verus: the replacement() driver extracted verbatim, verified against the C04 Populations contracts and an ARBITRARY "
                 "Replacement operator (unbounded). Kani: Hoare triples on the real replace kernels at enumerated sizes."),
    verus=[dict(name="driver", template="contracts/C12/driver.vrs", expect=["replacement"]),
           dict(name="mu_plus_lambda", template="contracts/C12/mu_plus_lambda.vrs", expect=["<MuPlusLambda as Replacement<P>>::replace"]),
           dict(name="simple_ops", template="contracts/C12/simple_ops.vrs",
                expect=["<DiscardOffspring as Replacement<P>>::replace", "<Generational as Replacement<P>>::replace",
                        "<Merge as Replacement<P>>::replace", "<RandomReplacement as Replacement<P>>::replace"])],
    kani=[dict(files=["contracts/C12/c12.rs"])],
    native=[dict(files=["contracts/C12/c12_native.rs"],
                 harnesses={"c12_native_keep_better_at_index": dict(anchor="KeepBetterAtIndex::replace",
                            bound="BOUNDED STAND-IN, native exhaustive enumeration: equal sizes 0..2 over 5 objective values (incl. ties, +inf) + 4 unequal-size pairs"),
                            "c12_native_mu_plus_lambda": dict(anchor="MuPlusLambda::replace (real std sort)",
                            bound="BOUNDED STAND-IN, native exhaustive enumeration: 0..3 parents x 0..3 offspring over 5 objective values (ties, +inf) x mu 0..total+1"),
                            "c12_native_random_replacement": dict(anchor="RandomReplacement::replace (real rand shuffle)",
                            bound="BOUNDED STAND-IN, native run: 0..3 parents x 0..3 offspring x mu 0..7 x 16 seeds"),
                            "c12_native_simple_replacements": dict(anchor="Merge / Generational / DiscardOffspring::replace",
                            bound="BOUNDED STAND-IN, native enumeration: 0..3 parents x 0..3 offspring (Generational with 4 capacity values): exact result incl. order (parents first for Merge)")})],
    min_obligations={"quick": 54, "thorough": 54},
    uncovered=["KeepBetterAtIndex is only covered by a BOUNDED native enumeration (ensure! => Kani ICE; iterator chain => Verus rejects)"],
)

PROPS["C02"] = dict(
    level="other",
    explanation=("Verus: State::holding extracted verbatim and verified against the C01 registry contracts and an arbitrary closure "
                 "(unbounded). Kani: borrow-conflict mapping, distinct() and multi-borrow aliasing triples at enumerated shapes."),
    verus=[dict(name="holding", template="contracts/C02/holding.vrs", expect=["State<'a, P>::holding"])],
    kani=[dict(files=["contracts/C02/c02.rs"], map_shim=True, map_shim_files=["src/state/registry/mod.rs", "src/state/registry/entry.rs", "src/state/registry/multi.rs"], harness_timeout="900s", timeout_s=2700)],
    min_obligations={"quick": 13, "thorough": 13},
    uncovered=["the reader-count state machine itself is std::cell::RefCell's contract (assumed)"],
)
PROPS["C10"] = dict(
    level="other",
    explanation=("Verus: Not (init/require/evaluate), And/Or (init/require), EveryN::evaluate and ChangeOf::evaluate extracted verbatim "
                 "and verified against arbitrary operands, lenses and equality measures (unbounded). Kani: equality checkers."),
    verus=[dict(name="logical", template="contracts/C10/logical.vrs",
                expect=["<Not<P> as Condition<P>>::evaluate", "impl<P, L> Condition<P> for EveryN<L>::evaluate"]),
           dict(name="changeof", template="contracts/C10/changeof.vrs", expect=["impl<P, L> Condition<P> for ChangeOf<L>::evaluate"]),
           dict(name="less_than_n", template="contracts/C10/less_than_n.vrs", expect=["impl<P, L> Condition<P> for LessThanN<L>::evaluate"])],
    kani=[dict(files=["contracts/C10/c10.rs"])],
    native=[dict(files=["contracts/C10/c10_native.rs"],
                 harnesses={"c10_native_logical_and_optimum": dict(anchor="And::evaluate",
                            bound="BOUNDED STAND-IN, native enumeration: And/Or over every operand vector of length 0..4 (2 evaluations each), Not(And), OptimumReached on a 3x6 grid"),
                            "c10_native_loops_and_chance": dict(anchor="Loop + LessThanN + EveryN + RandomChance (whole loops)",
                            bound="BOUNDED STAND-IN, native run: loops bounded by n in 0..7 (passes, tests, progress per pass) x every-m for m in 1..4; LessThanN evaluated directly on 6 bounds x 16 observed values (below, at, above n, up to u32::MAX) x {iterations, evaluations}: result and progress value/n; an evaluation-bounded loop that overshoots its budget; RandomChance frequency over 20000 draws for 6 probabilities, and p = 0 / p = 1 under degenerate generators (every draw the smallest / largest possible)")})],
    min_obligations={"quick": 18, "thorough": 18},
    uncovered=["And/Or::evaluate (closure capturing &mut state: Verus rejects; Kani does not terminate)", "the VALUE of the progress written by LessThanN (float division is uninterpreted)",
               "OptimumReached", "RandomChance (probability)"],
)

PROPS["C11"] = dict(
    level="other",
    explanation=("Verus: selection() driver, LinearRank::select and RandomWithoutRepetition::select extracted verbatim and verified "
                 "against kernel contracts (C04/C05 contracts, reverse_rank, weighted sampler whose PRECONDITION is the property's "
                 "'never favour a worse individual' clause). Kani: weight/rank kernels at enumerated sizes."),
    verus=[dict(name="driver", template="contracts/C11/driver.vrs", expect=["selection"]),
           dict(name="operators", template="contracts/C11/operators.vrs",
                expect=["<LinearRank as Selection<P>>::select", "<RandomWithoutRepetition as Selection<P>>::select"]),
           dict(name="simple_selections", template="contracts/C11/simple_selections.vrs",
                expect=["<All as Selection<P>>::select", "<None as Selection<P>>::select", "<CloneSingle as Selection<P>>::select", "<FullyRandom as Selection<P>>::select"])],
    kani=[dict(files=["contracts/C11/c11.rs", "contracts/C11/c11_contracts.rs"],
               annotations=[dict(file="src/components/selection/functional.rs", impl="-", fn="objective_bounds", attrs=[
                   "kani::ensures(|r: &Option<(f64, f64)>| r.is_none() == population.is_empty())",
                   "kani::ensures(|r: &Option<(f64, f64)>| match r { Some((max, min)) => population.iter().all(|i| i.objective().value() <= *max && i.objective().value() >= *min) && population.iter().any(|i| i.objective().value() == *max) && population.iter().any(|i| i.objective().value() == *min), None => true })",
               ])])],
    native=[dict(files=["contracts/C11/c11_native.rs"],
                 harnesses={"c11_native_selection_operators": dict(anchor="Selection::select (sampling operators)",
                            bound="BOUNDED STAND-IN, native run: 6 populations (sizes 0..5, ties, negatives) x counts 0..n+2 x 6 seeds x 12 operators as components; 4000-draw best-vs-worst frequency for the 4 weight-based operators"),
                            "c11_native_rank_and_weights": dict(anchor="reverse_rank / proportional_weights (kernels)",
                            bound="BOUNDED STAND-IN, native exhaustive enumeration: all populations of size 0..4 over 8 objective values (incl. a 1-ulp near-tie, 1e6, +inf) x 3 (offset, normalise) settings")})],
    min_obligations={"quick": 41, "thorough": 41},
    uncovered=["ExponentialRank, RouletteWheel, SUS, Tournament, DE selections, FullyRandom, CloneSingle are only covered by a BOUNDED native run "
               "(float powi / accumulation, rejection-sampling loops over a symbolic RNG, State + eyre keep both verifiers out)"],
)
PROPS["C15"] = dict(
    level="other",
    explanation=("Verus: ExtractionRule::execute, LogConfig::execute and Logger::execute extracted verbatim and verified against "
                 "arbitrary triggers/extractors and the abstract form of holding's contract (C02). Kani: Step::push / CompressedLog."),
    verus=[dict(name="logging", template="contracts/C15/logging.vrs",
                expect=["ExtractionRule<P>::execute", "LogConfig<P>::execute", "<Logger as Component<P>>::execute"])],
    kani=[dict(files=["contracts/C15/c15.rs"])],
    native=[dict(files=["contracts/C15/c15_config_native.rs"],
                 harnesses={"c15_native_config_serialisation": dict(anchor="Configuration export (serde/ron)",
                            bound="BOUNDED STAND-IN, native run: 19 shipped templates (all but the two ACO ones) x 2..7 one-value parameter variations each: serialisable, clone identical, variations differ, components named; 6 hand-built structures and 6 lens-target variants pairwise different")}),
            dict(files=[], inject=[dict(file="contracts/C15/c15_native.rs", into="src/logging/log.rs")],
                 harnesses={"c15_native_compressed_enumeration": dict(anchor="CompressedLog::from",
                            bound="BOUNDED STAND-IN, native exhaustive enumeration: all logs of <= 3 steps x <= 3 distinct names out of 4 (68921 logs)"),
                            "c15_native_logger_json_roundtrip": dict(anchor="Logger -> Log -> to_json",
                            bound="BOUNDED STAND-IN, native run: 1024 logger configurations (loop lengths 0,1,5,6 x two periodic rules with periods 0..3 x duplicate-name rule x missing-source rule x explicit iteration-counter rule x logger directly in the loop or inside a Scope); recorded steps and the decoded JSON and CBOR exports compared with independently computed expectation")})],
    min_obligations={"quick": 7, "thorough": 7},
    uncovered=["compressed export kernel CompressedLog::from is only covered by a BOUNDED native enumeration (CBMC does not finish even on one concrete two-step log: 10 min / 22 GB; Verus rejects its &mut-capturing closure; Kani harness kept in contracts/attic/)",
               "JSON export decoding and the RON configuration export only through BOUNDED native runs; the two ACO templates are not serialised (private parameter fields, TSP instance)"],
)

REG_FILES = ["src/state/registry/mod.rs", "src/state/registry/entry.rs", "src/state/registry/multi.rs"]
PROPS["C01"] = dict(
    level="other",
    explanation=("Per-operation Hoare triples on the real StateRegistry against the model operation on an abstract stack-of-maps view "
                 "(observed through parent()/contains_at_top/value reads only), discharged by CBMC at enumerated concrete shapes "
                 "(which of the types {A,B} exist in which scope, depth <= 2 quick / <= 3 thorough) with symbolic payloads. "
                 "All histories that stay within the bound agree with the model by induction over operations (not machine-checked)."),
    verus=[],
    kani=[dict(files=["contracts/C01/c01.rs", "contracts/C01/c01_multi.rs"], map_shim=True, map_shim_files=REG_FILES, harness_timeout="900s", timeout_s=2700,
               thorough_jobs=5)],   # ~150 harnesses, several of 6-20 GB each: 16 at a time exhausts the memory (CBMC killed = undecided)
    native=[dict(files=["contracts/C01/c01.rs"],
                 harnesses={n: dict(anchor="StateRegistry::entry (vacant-entry paths)",
                                    bound="BOUNDED STAND-IN, native run of the generated triple with payload 0 on its concrete shape (CBMC exhausts 40 GB on std's map-entry machinery)")
                            for n in ["c01_entry_or_insert_a_e", "c01_entry_or_insert_a_e_b", "c01_entry_or_insert_a_a", "c01_entry_or_insert_a_a_b",
                                      "c01_entry_occupied_ops_a_e", "c01_entry_occupied_ops_a_e_b"]}
                            | {"c01_native_all_triples": dict(anchor="StateRegistry (all generated triples, natively)",
                                    bound="BOUNDED STAND-IN, native run of all 152 generated triples (quick and thorough shapes) with three concrete payload assignments (all zero, distinct ascending, descending)")})],
    min_obligations={"quick": 46, "thorough": 46},
    trusted=["std HashMap/HashSet replaced by an association list with the same interface under cfg(kani) (shim/verif_map.rs)",
             "std::cell::RefCell, better_any downcasts: exercised, not specified"],
    uncovered=["histories beyond the enumerated shapes (induction over operations is not machine-checked)", "take / panicking accessors"],
)
PROPS["C17"] = dict(
    level="other",
    explanation=("Verus: ExponentialAnnealingAcceptance::execute extracted verbatim; decision structure of the Metropolis rule against the "
                 "C04 Populations contracts (a candidate at least as good always survives, for every objective value incl. +inf; exactly one population replaces the two; "
                 "survivor is one of the two). Kani: GeometricCooling::map = value * alpha over all f64 (complete)."),
    verus=[dict(name="acceptance", template="contracts/C17/acceptance.vrs",
                expect=["<ExponentialAnnealingAcceptance as Component<P>>::execute"]),
           dict(name="mapping", template="contracts/C17/mapping.vrs", expect=["mapping", "<GeometricCooling<L> as Component<P>>::execute"])],
    kani=[dict(files=["contracts/C17/c17.rs"])],
    native=[dict(files=["contracts/C17/c17_native.rs"],
                 harnesses={"c17_native_metropolis_grid": dict(anchor="ExponentialAnnealingAcceptance::execute",
                            bound="BOUNDED STAND-IN, native grid: 10x10 objective pairs (incl. equal, 1 ulp apart, +inf) x 8 temperatures (1e-300 .. 1e300) x 25 seeds x {2,3} populations; exact rules where exp() is exactly 0 or 1"),
                            "c17_native_acceptance_frequency": dict(anchor="ExponentialAnnealingAcceptance::execute",
                            bound="BOUNDED STAND-IN, native statistics: 11 (margin, temperature) cells x 4000 fixed seeds, acceptance frequency within +-0.05 of exp(-(f_cand - f_cur)/T)")})],
    min_obligations={"quick": 32, "thorough": 32},
    uncovered=["the acceptance probability itself is not PROVED (floats are uninterpreted in Verus): it is compared statistically, on a grid, by the native stand-in",
               "mapping() driver applying the cooling through lenses"],
    assumptions=["float operations are defined (vstd sub_req/div_req lifted into the precondition)"],
)

PROPS["C06"] = dict(
    level="other",
    explanation=("Kani Hoare triple on the real Sequential::evaluate with a call-logging objective function at population sizes 0, 1, 3: "
                 "every individual evaluated exactly once, in order, solutions untouched, objective = f(solution)."),
    verus=[dict(name="require", template="contracts/C06/require.vrs",
                expect=["<PopulationEvaluator<I> as Component<P>>::require", "<PopulationEvaluator<I> as Component<P>>::init"])],
    kani=[dict(files=["contracts/C06/c06.rs"], map_shim=True,
                         map_shim_files=["src/state/registry/mod.rs", "src/state/registry/entry.rs", "src/state/registry/multi.rs"])],
    native=[dict(files=["contracts/C07/whole_run_native.rs"],
                 harnesses={"c06_native_whole_runs": dict(anchor="whole runs of the shipped templates (evaluation count)",
                            bound=B + "reported evaluations == objective-function invocations")}),
            dict(files=["contracts/C06/c06_native.rs"],
                 harnesses={"c06_native_population_evaluator": dict(anchor="PopulationEvaluator::execute",
                            bound="BOUNDED STAND-IN, native run: population sizes 0..4 x every evaluated/unevaluated mix x {sequential, parallel} x 1..2 steps; sizes 5..70, 97, 128, 200 x 3 mixes x both evaluators, the parallel one also under worker pools of 1, 2, 3, 4, 5, 8 threads; missing-evaluator run; registered/requested identifier combinations")})],
    min_obligations={"quick": 9, "thorough": 9},
    uncovered=["PopulationEvaluator::execute incl. the evaluation COUNTER (closure capturing &mut population: Verus rejects; State + eyre: Kani cannot)",
               "Parallel evaluator (threads)",
               "whole-run equality 'reported evaluations = objective-function invocations'", "firefly update's own counting"],
)
