"""Unit tables: which contracts/harnesses decide which property.  Declarative; no logic."""

PROPS = {
    "C05": dict(
        level="proof",
        explanation=("Every method of the real `Individual` (extracted verbatim each run) carries a Verus contract over the "
                     "two-field view (solution, objective); collection helpers are checked by Kani Hoare triples at "
                     "enumerated lengths (bounded, listed)."),
        verus=[dict(name="individual", template="contracts/C05/individual.vrs",
                    expect=["Individual<P>::solution_mut", "Individual<P>::evaluate_with", "Individual<P>::set_objective",
                            "<Individual<P> as Clone>::clone"])],
        kani=[],
        min_obligations={"quick": 11, "thorough": 11},
        uncovered=["'after every component execution of every shipped heuristic' (whole runs) is not decided by per-function contracts"],
        assumptions=["Clone/PartialEq of the encoding and objective types behave as vstd's `cloned` / spec eq",
                     "fields `solution`/`objective` are private and only written in src/problems/individual.rs (scan)"],
    ),
    "C09": dict(
        level="other",
        explanation=("Hoare-triple harnesses on the real SingleObjective/MultiObjective, discharged by CBMC over full-domain "
                     "symbolic f64 inputs (all bit patterns). SingleObjective harnesses are loop-free (complete); "
                     "MultiObjective harnesses are complete per vector length (lengths listed as bounds)."),
        verus=[],
        kani=[dict(files=["contracts/C09/c09.rs"])],
        min_obligations={"quick": 15, "thorough": 20},
        assumptions=["CBMC's IEEE-754 float model", "derive_more operator derives compiled as in the real build"],
    ),
}

PROPS["C04"] = dict(
    level="other",
    explanation=("Verus: every method of the real `Populations` (extracted verbatim each run) against view() = Seq of populations, "
                 "whole-view postconditions; lemma: n rotations of the top n restore the order (unbounded). Kani: the same "
                 "contracts as Hoare triples at concrete heights (listed) with symbolic tags/depths against real std (checks the "
                 "assumed rotate_right / range-index specs and yields replayable counterexamples)."),
    verus=[dict(name="populations", template="contracts/C04/populations.vrs",
                expect=["Populations<P>::rotate", "Populations<P>::try_peek", "Populations<P>::try_pop", "Populations<P>::pop",
                        "Populations<P>::push", "Populations<P>::current_mut", "template::lemma_n_rotations_restore"])],
    kani=[dict(files=["contracts/C04/c04.rs"])],
    min_obligations={"quick": 24, "thorough": 26},
    uncovered=["RotatePopulations::execute guard (State-based; see C03/C12 glue)"],
    assumptions=["slice::rotate_right(k) moves the last k elements to the front (assumed in Verus, checked by the Kani triples at heights <= 4)",
                 "Vec range IndexMut == as_mut_slice()[range] (closed-list rewrite)"],
)

NOT_YET = "not claimed yet in this commit: unit under construction (see DESIGN.md §4 for the planned contracts)"
NOT_APPLICABLE = {
    "C01": NOT_YET, "C02": NOT_YET, "C03": NOT_YET, "C06": NOT_YET, "C07": NOT_YET,
    "C10": NOT_YET, "C11": NOT_YET, "C12": NOT_YET, "C13": NOT_YET, "C14": NOT_YET, "C15": NOT_YET, "C17": NOT_YET,
    "C08": "schedule/thread independence and run-to-run determinism: Kani has no threads, Verus would need its own permission types inside rayon; determinism of two runs is a 2-safety property with no per-call contract; the one contract-shaped clause (optimize_with keeps a supplied generator) sits behind State + eyre, which neither verifier reaches (DESIGN.md §2 facts 6, 7, 18; §6)",
    "C16": "whole-run property of 21 template compositions of dyn components over State; no function-level contract decides it, and composing per-component stack-effect contracts needs an interpreter of the template tree, i.e. a model (DESIGN.md §6)",
    "C18": "all mechanisms live in State-based execute bodies built from multizip loops and f64 arithmetic; Verus rejects iterator adapters and float negation and treats f64 as uninterpreted, Kani cannot enter State (DESIGN.md §2 facts 7, 19; §6)",
    "C19": "iterator chains, powf and WeightedIndex sampling inside State-based execute bodies; the stated invariants are numerical (DESIGN.md §6)",
    "C20": "energy conservation 'up to rounding' needs real arithmetic over f64 (uninterpreted in Verus) inside State-based execute bodies using .iter().position(closure) (DESIGN.md §6)",
}

MANIFEST_TEXT = {
    "C05": dict(
        category="proof",
        technique="Verus contracts on the real Individual methods (extracted verbatim each run), Z3",
        text=("Every method of `Individual` is extracted verbatim from /repo on each run and verified by Verus against a contract "
              "over the view (solution, objective): solution_mut clears the objective and hands out exactly the solution; "
              "evaluate_with stores the function's result for the unchanged solution; readers and clone keep both fields "
              "together. Unbounded (all encodings, all objective values, all objective functions)."),
        note=("Trusted: mirror of the Problem trait (associated types only), vstd specs of Option/Clone. The clause about every "
              "step of every shipped heuristic is NOT decided (whole runs); listed under uncovered_clauses in the evidence."),
    ),
    "C04": dict(
        category="other",
        technique="Verus contracts on the real Populations methods over a Seq view + Kani Hoare triples at concrete heights",
        text=("All 13 Populations methods are extracted verbatim and proved by Verus against whole-view Seq postconditions for all "
              "stack heights and contents (unbounded), plus the lemma that n rotations of the top n restore the order. Because the "
              "Verus proof of rotate rests on an assumed spec of slice::rotate_right, the same contracts are also discharged "
              "bit-precisely by Kani at heights <= 4 (bounded, listed) on the real std code; hence level 'other', not 'proof'."),
        note="Trusted: vstd Vec/Option specs, assumed rotate_right spec, closed-list rewrite vec[a..b] -> vec.as_mut_slice()[a..b]; Kani part bounded by height.",
    ),
    "C09": dict(
        category="other",
        technique="Kani/CBMC Hoare triples over full-domain symbolic f64 on the real SingleObjective/MultiObjective",
        text=("Construction, total order, min/max/sort and operator closure of SingleObjective are decided for all 2^64 bit patterns "
              "per argument by loop-free harnesses (complete). MultiObjective construction and Pareto-order laws are decided for "
              "all values at vector lengths 0..3 (length is the only bound; evidence lists it, and then reports level=other). "
              "The five operator-closure obligations fail on the unchanged tree and are recorded as known findings with witnesses."),
        note="Trusted: CBMC's IEEE-754 model, Kani's translation of the derive_more operator impls. Vector length <= 3 (thorough) / <= 2 pairs (quick).",
    ),
}
