"""Run Verus on one expanded unit and classify the outcome per obligation."""
import json
import os
import re
import subprocess
import time

from . import extract
from .rustlex import AnchorError

REFUTATION_PATTERNS = [
    "postcondition not satisfied",
    "precondition not satisfied",
    "assertion failed",
    "invariant not satisfied",
    "possible arithmetic underflow/overflow",
    "possible division by zero",
    "decreases not satisfied",
    "possible bit shift underflow/overflow",
    "unreachable!() is reachable",  # vstd
    "loop invariant",
    "cannot show",
    "failed precondition",
    "failed this postcondition",
    "might not terminate",
    "constructed value may fail to meet its declared type invariant",
    "unable to prove post-condition of closure",
    "unable to prove pre-condition",
    "unable to prove assertion",
]
UNDECIDED_PATTERNS = ["rlimit", "Resource limit", "timed out", "timeout"]


class UnitResult:
    def __init__(self, unit):
        self.unit = unit
        self.obligations = []      # dicts: name, status(discharged|refuted|undecided|error), detail, time_ms
        self.tool_error = None     # string => exit 2
        self.wall_s = 0.0
        self.smt_ms = 0
        self.rewrites = []
        self.includes = []
        self.cmd = ""
        self.file = ""
        self.raw_stderr = ""
        self.vacuity_ok = 0
        self.vacuity_total = 0
        self.extracted = []
        self.sample = None


def _vacuity_copy(ex):
    """Append, for every extracted fn, a copy whose ensures is `false`; each must FAIL."""
    text = ex.text()
    lines = text.split("\n")
    added = []
    for idx, (a, b, label, _) in enumerate(list(ex.fn_spans)):
        if label in getattr(ex, "novacuity", []):
            continue
        seg = lines[a - 1:b]
        segtxt = "\n".join(seg)
        m = re.search(r"\bfn\s+(\w+)", segtxt)
        if not m:
            continue
        name = m.group(1)
        new = segtxt[:m.start(1)] + name + f"__vacuity{idx}" + segtxt[m.end(1):]
        # replace ensures clause (up to the body brace) by `ensures false`
        masked = extract.rustlex.mask(new)
        ob = extract.rustlex.first_open_brace(masked, m.end())
        head, body = new[:ob], new[ob:]
        hm = masked[:ob]
        em = re.search(r"(?m)^\s*ensures\b", hm)
        dm = re.search(r"(?m)^\s*decreases\b", hm)
        if em:
            end = dm.start() if (dm and dm.start() > em.start()) else len(head)
            head = head[:em.start()] + "    ensures false,\n" + head[end:]
        else:
            ins = dm.start() if dm else len(head)
            head = head[:ins].rstrip() + "\n    ensures false,\n" + head[ins:]
        added.append((label, head + body))
    return added


def run_unit(unit_name, template_path, scratch, rlimit=30, extra_args=None, must_fail=(), timeout=600,
             vacuity=True, impl_wrappers=None):
    """Expand template, run verus, classify.  `must_fail`: labels of template fns that are negative
    probes (must be refuted)."""
    res = UnitResult(unit_name)
    t0 = time.time()
    try:
        ex = extract.expand(template_path)
    except AnchorError as e:
        res.tool_error = f"ANCHOR-LOST/UNSUPPORTED: {e}"
        return res
    res.rewrites = ex.rewrites.as_list()
    res.includes = ex.includes
    res.extracted = list(ex.extracted)
    text = ex.text()
    os.makedirs(scratch, exist_ok=True)
    fname = os.path.join(scratch, unit_name.replace("/", "_") + ".rs")
    with open(fname, "w") as fh:
        fh.write(text)
    res.file = fname
    # a sample obligation written out: the first extracted function up to the start of its body
    try:
        a, b, label, srcinfo = ex.fn_spans[min(1, len(ex.fn_spans) - 1)]
        seg = text.split("\n")[a - 1:b]
        hdr = []
        for l in seg:
            if l.strip() == "{":
                break
            hdr.append(l.rstrip())
        res.sample = {"function": srcinfo, "contract_as_verified": "\n".join(hdr)[:1200]}
    except Exception:
        res.sample = None
    cmd = ["verus", fname, "--output-json", "--time", "--error-format=json",
           "--multiple-errors", "5", "--rlimit", str(rlimit), "--crate-type=lib"] + (extra_args or [])
    res.cmd = " ".join(cmd)
    try:
        p = subprocess.run(cmd, capture_output=True, text=True, timeout=timeout, cwd=scratch)
    except subprocess.TimeoutExpired:
        res.tool_error = f"verus wall-clock timeout after {timeout}s"
        res.wall_s = time.time() - t0
        return res
    res.wall_s = time.time() - t0
    res.raw_stderr = p.stderr
    # --- stdout: output-json
    summary = None
    try:
        summary = json.loads(p.stdout[p.stdout.index("{"):])
    except Exception:
        pass
    diags = []
    for line in p.stderr.split("\n"):
        line = line.strip()
        if line.startswith("{") and '"$message_type"' in line:
            try:
                d = json.loads(line)
                if d.get("$message_type") == "diagnostic":
                    diags.append(d)
            except Exception:
                pass
    errors = [d for d in diags if d.get("level") == "error" and not d["message"].startswith("aborting due to")]
    if summary is None:
        res.tool_error = "verus produced no JSON summary: " + (p.stderr[-2000:] if p.stderr else "")
        return res
    vr = summary.get("verification-results", {})
    try:
        res.smt_ms = summary["times-ms"]["smt"]["smt-run"]
    except Exception:
        res.smt_ms = 0
    if vr.get("encountered-vir-error") or (errors and vr.get("verified", 0) == 0 and vr.get("errors", 0) == 0):
        # compile / VIR errors: not a refutation
        msg = "; ".join(f"{d['message']} @line {_primary_line(d)}" for d in errors[:5])
        res.tool_error = "UNSUPPORTED/COMPILE: " + msg
        return res
    # classify errors per span
    by_label = {}
    stray = []
    for d in errors:
        line = _primary_line(d)
        label = ex.label_for_line(line) if line else None
        if label is None:
            # template-level function? find enclosing `fn name` upward in the text
            label = _enclosing_fn(text, line)
            if label is None:
                stray.append(d)
                continue
            label = "template::" + label
        by_label.setdefault(label, []).append(d)
    if stray:
        res.tool_error = "unattributed verus error: " + "; ".join(d["message"] for d in stray[:3])
        return res
    # function list = extracted spans + template proof/exec fns (by name scan)
    tmpl_fns = _template_fns(text, ex)
    times = {}
    try:
        for mod in summary["times-ms"]["smt"]["smt-run-module-times"]:
            for fb in mod.get("function-breakdown", []):
                times[fb["function"].split("::")[-1]] = fb.get("time", 0)
    except Exception:
        pass
    for label in ex.extracted + ["template::" + f for f in tmpl_fns]:
        errs = by_label.get(label, [])
        short = label.split("::")[-1]
        negative = short in must_fail or short.endswith("__mustfail")
        status, detail = _classify(errs)
        if negative:
            if status == "refuted":
                res.vacuity_ok += 1
            else:
                res.tool_error = f"VACUITY: negative probe {label} was not refuted ({status})"
            res.vacuity_total += 1
            continue
        res.obligations.append({
            "name": f"{unit_name}/{label}",
            "status": status,
            "detail": detail,
            "time_ms": times.get(short, None),
            "kind": "extracted" if label in ex.extracted else "lemma",
        })
    # --- vacuity pass (separate run so that diagnostics of the main pass stay clean)
    if vacuity and res.tool_error is None and all(o["status"] == "discharged" for o in res.obligations):
        _vacuity_pass(ex, res, scratch, rlimit, extra_args, timeout)
    return res


def _vacuity_pass(ex, res, scratch, rlimit, extra_args, timeout):
    """Second file: every extracted fn is renamed f__vacuity with `ensures false`; each must be refuted.
    A copy that verifies means the function's precondition together with the trusted preamble is
    contradictory (or the body cannot return), i.e. the main result would be vacuous."""
    text = ex.text()
    lines = text.split("\n")
    copies = _vacuity_copy(ex)
    # replace each span in place (same impl context), bottom-up
    spans = sorted(ex.fn_spans, key=lambda s: -s[0])
    cp = {lab: body for lab, body in copies}
    new_spans = []
    for a, b, label, _ in spans:
        if label not in cp:
            continue
        new = cp[label].split("\n")
        # carry over attributes written in the template directly above the extracted item
        k = a - 3   # lines[a-2] is the "// ---- extracted verbatim" marker
        attrs = []
        while k >= 0 and lines[k].strip().startswith("#["):
            attrs.insert(0, lines[k])
            k -= 1
        lines[b:b] = attrs + new   # keep the original (other functions may call it), add the copy after it
    vtext = "\n".join(lines)
    # recompute spans by scanning for __vacuity fn names
    fname = res.file.replace(".rs", "__vacuity.rs")
    with open(fname, "w") as fh:
        fh.write(vtext)
    cmd = ["verus", fname, "--error-format=json", "--multiple-errors", "1", "--rlimit", str(rlimit),
           "--crate-type=lib"] + (extra_args or [])
    try:
        p = subprocess.run(cmd, capture_output=True, text=True, timeout=timeout, cwd=scratch)
    except subprocess.TimeoutExpired:
        res.tool_error = "vacuity pass timeout"
        return
    refuted = set()
    for line in p.stderr.split("\n"):
        line = line.strip()
        if line.startswith("{") and '"$message_type"' in line:
            try:
                d = json.loads(line)
            except Exception:
                continue
            if d.get("level") != "error":
                continue
            ln = _primary_line(d)
            f = _enclosing_fn(vtext, ln) if ln else None
            if f and re.search(r"__vacuity\d+$", f) and _classify([d])[0] == "refuted":
                refuted.add(f)
    names = set(re.findall(r"\bfn\s+(\w+__vacuity\d+)\b", vtext))
    res.vacuity_total += len(names)
    res.vacuity_ok += len(names & refuted)
    missing = sorted(names - refuted)
    if missing:
        res.tool_error = ("VACUITY: `ensures false` copy verified (contradictory precondition/preamble or "
                          "non-returning body) for: " + ", ".join(missing) + " :: " + p.stderr[-600:])


def _primary_line(d):
    for s in d.get("spans", []):
        if s.get("is_primary"):
            return s.get("line_start")
    for s in d.get("spans", []):
        return s.get("line_start")
    return None


def _enclosing_fn(text, line):
    if not line:
        return None
    lines = text.split("\n")
    for k in range(min(line, len(lines)) - 1, -1, -1):
        m = re.match(r"\s*(?:pub(?:\s*\([^)]*\))?\s+)?(?:open\s+|closed\s+|broadcast\s+)*(?:proof\s+|exec\s+|spec\s+)?fn\s+(\w+)", lines[k])
        if m:
            return m.group(1)
    return None


def _template_fns(text, ex):
    """proof/exec fns written in the template itself (lemmas, glue checks) outside extracted spans and
    outside trusted preamble sections."""
    out = []
    lines = text.split("\n")
    in_pre = False
    for idx, l in enumerate(lines, start=1):
        if l.startswith("// ---- trusted preamble:"):
            in_pre = True
        elif l.startswith("// ---- end preamble:"):
            in_pre = False
        if in_pre or ex.label_for_line(idx):
            continue
        m = re.match(r"\s*(?:pub\s+)?(?:broadcast\s+)?(proof|exec)?\s*fn\s+(\w+)", l)
        if m and (m.group(1) == "proof" or m.group(1) == "exec" or m.group(1) is None):
            # skip body-less declarations and external_body/assume_specification
            prev = "\n".join(lines[max(0, idx - 4):idx - 1])
            if "external_body" in prev or "assume_specification" in prev or "uninterp" in l:
                continue
            if re.match(r"\s*(?:pub\s+)?(?:open|closed|uninterp)?\s*spec\s+fn", l):
                continue
            # trait method declarations end in ';' before any '{'
            rest = "\n".join(lines[idx - 1:idx + 40])
            ob, semi = rest.find("{"), rest.find(";")
            if semi >= 0 and (ob < 0 or semi < ob):
                continue
            out.append(m.group(2))
    return out


def _classify(errs):
    if not errs:
        return "discharged", ""
    msgs = []
    status = None
    for d in errs:
        msg = d["message"]
        msgs.append(f"{msg} @line {_primary_line(d)}" + _labels(d))
        if any(p in msg for p in UNDECIDED_PATTERNS):
            status = status or "undecided"
        elif any(p in msg for p in REFUTATION_PATTERNS):
            status = "refuted"
        else:
            status = status if status == "refuted" else "error"
    return status, " | ".join(msgs)


def _labels(d):
    out = []
    for s in d.get("spans", []):
        t = "".join(x.get("text", "") for x in s.get("text", [])).strip()
        if s.get("label"):
            out.append(f" [{s['label']}: {t[:120]}]")
        elif s.get("is_primary"):
            out.append(f" [{t[:120]}]")
    return "".join(out)
