"""Minimal Rust source scanner: masks comments/strings so that brace matching and
name-based item anchoring work on the real text.  No parsing beyond that.

All anchors are (kind, name[, impl header]) -- never line numbers.
"""
import re


class AnchorError(Exception):
    """Raised when an anchor is missing or ambiguous (=> exit 2, never a VIOLATION)."""


def mask(src: str) -> str:
    """Return a string of the same length where the *contents* of comments, string literals and
    char literals are replaced by spaces (newlines kept).  Delimiters of strings are kept as '"'."""
    out = list(src)
    i, n = 0, len(src)

    def blank(a, b):
        for k in range(a, b):
            if out[k] != "\n":
                out[k] = " "

    while i < n:
        c = src[i]
        if c == "/" and i + 1 < n and src[i + 1] == "/":
            j = src.find("\n", i)
            j = n if j < 0 else j
            blank(i, j)
            i = j
        elif c == "/" and i + 1 < n and src[i + 1] == "*":
            depth, j = 1, i + 2
            while j < n and depth:
                if src.startswith("/*", j):
                    depth += 1
                    j += 2
                elif src.startswith("*/", j):
                    depth -= 1
                    j += 2
                else:
                    j += 1
            blank(i, j)
            i = j
        elif c == '"' or (c in "br" and re.match(r'(br|rb|b|r)(#*)"', src[i:i + 12]) and
                          (i == 0 or not (src[i - 1].isalnum() or src[i - 1] == "_"))):
            m = re.match(r'(br|rb|b|r)?(#*)"', src[i:i + 12])
            prefix, hashes = m.group(1) or "", m.group(2)
            start = i + m.end()
            if "r" in prefix:
                end_tok = '"' + hashes
                j = src.find(end_tok, start)
                j = n if j < 0 else j
                blank(start, j)
                i = j + len(end_tok)
            else:
                j = start
                while j < n and src[j] != '"':
                    j += 2 if src[j] == "\\" else 1
                blank(start, j)
                i = j + 1
        elif c == "'":
            # char literal or lifetime
            m = re.match(r"'(\\.[^']*|[^\\'])'", src[i:i + 12])
            if m:
                blank(i + 1, i + m.end() - 1)
                i += m.end()
            else:
                i += 1
        else:
            i += 1
    return "".join(out)


def match_brace(masked: str, open_idx: int) -> int:
    """Index of the '}' matching the '{' at open_idx."""
    assert masked[open_idx] == "{", masked[open_idx:open_idx + 20]
    depth = 0
    for k in range(open_idx, len(masked)):
        ch = masked[k]
        if ch == "{":
            depth += 1
        elif ch == "}":
            depth -= 1
            if depth == 0:
                return k
    raise AnchorError("unbalanced braces")


def first_open_brace(masked: str, start: int, stop: int = None) -> int:
    """First '{' at paren/bracket depth 0 at or after start."""
    depth = 0
    stop = len(masked) if stop is None else stop
    for k in range(start, stop):
        ch = masked[k]
        if ch in "([":
            depth += 1
        elif ch in ")]":
            depth -= 1
        elif ch == "{" and depth == 0:
            return k
        elif ch == ";" and depth == 0:
            return -1
    return -1


def norm(s: str) -> str:
    return re.sub(r"\s+", " ", s).strip()


def brace_depths(masked: str, a: int, b: int):
    """depth[k-a] = brace depth *before* char k, relative to a."""
    d, out = 0, []
    for k in range(a, b):
        out.append(d)
        if masked[k] == "{":
            d += 1
        elif masked[k] == "}":
            d -= 1
    return out


def find_impl(src: str, masked: str, header: str):
    """Locate `impl ... {` whose whitespace-normalised header equals `header` (or, if header is
    /regex/, matches it).  Returns (hdr_start, open_brace, close_brace)."""
    hits = []
    occ = None
    mo = re.match(r"^(.*)#(\d+)$", header)
    if mo:   # `header#k`: the k-th of several impl blocks with the same header (textual order)
        header, occ = mo.group(1), int(mo.group(2))
    for m in re.finditer(r"(?m)^[ \t]*(unsafe\s+)?impl\b", masked):
        ob = first_open_brace(masked, m.end())
        if ob < 0:
            continue
        hdr = norm(src[m.start():ob])
        if header.startswith("/") and header.endswith("/"):
            ok = re.search(header[1:-1], hdr) is not None
        else:
            ok = hdr == norm(header)
        if ok:
            hits.append((m.start() + len(m.group(0)) - len(m.group(0).lstrip()), ob, match_brace(masked, ob)))
    if occ is not None:
        if occ >= len(hits):
            raise AnchorError(f"impl header {header!r}#{occ}: only {len(hits)} matches")
        return hits[occ]
    if len(hits) != 1:
        raise AnchorError(f"impl header {header!r}: {len(hits)} matches")
    return hits[0]


_QUAL = r"(?:pub(?:\s*\([^)]*\))?\s+)?(?:default\s+)?(?:const\s+)?(?:async\s+)?(?:unsafe\s+)?(?:extern\s+\"[^\"]*\"\s+)?"


def find_fn(src: str, masked: str, name: str, a: int = 0, b: int = None, depth: int = 0):
    """Locate `fn name` at relative brace depth `depth` within [a, b).
    Returns (item_start, sig_end(open brace), body_close)."""
    b = len(masked) if b is None else b
    depths = brace_depths(masked, a, b)
    hits = []
    for m in re.finditer(r"(?m)(" + _QUAL + r")\bfn\s+" + re.escape(name) + r"\b", masked[a:b]):
        if depths[m.start()] != depth:
            continue
        start = a + m.start()
        ob = first_open_brace(masked, a + m.end(), b)
        if ob < 0:
            continue  # declaration without body
        hits.append((start, ob, match_brace(masked, ob)))
    if len(hits) != 1:
        raise AnchorError(f"fn {name!r}: {len(hits)} matches")
    return hits[0]


def find_struct(src: str, masked: str, name: str):
    """Locate `struct Name ... {..}` or `struct Name(..);`.  Returns (start, end_exclusive)."""
    hits = []
    for m in re.finditer(r"(?m)^[ \t]*((?:pub(?:\s*\([^)]*\))?\s+)?(?:struct|enum)\s+" + re.escape(name) + r"\b)", masked):
        start = m.start(1)
        # tuple struct / unit struct end with ';' before any '{'
        ob = first_open_brace(masked, m.end())
        semi = masked.find(";", m.end())
        if ob >= 0 and (semi < 0 or ob < semi):
            hits.append((start, match_brace(masked, ob) + 1))
        elif semi >= 0:
            hits.append((start, semi + 1))
    if len(hits) != 1:
        raise AnchorError(f"struct {name!r}: {len(hits)} matches")
    return hits[0]


def find_loops(masked_body: str):
    """Positions (kw_start, open_brace) of `for`/`while`/`loop` loops in a masked fn body, in
    textual order.  `for<` (HRTB) and `impl .. for ..` are skipped."""
    out = []
    for m in re.finditer(r"\b(for|while|loop)\b", masked_body):
        kw = m.group(1)
        rest = masked_body[m.end():]
        if kw == "for":
            if rest.lstrip().startswith("<"):
                continue
            # `impl Trait for Type` inside a body: preceded by `impl` on the same statement
            prev = masked_body[max(0, m.start() - 200):m.start()]
            last_stmt = re.split(r"[;{}]", prev)[-1]
            if re.search(r"\bimpl\b", last_stmt):
                continue
            if not re.match(r"\s+[^;{]*?\bin\b", rest):
                continue
        if kw == "loop" and not rest.lstrip().startswith("{"):
            continue
        ob = first_open_brace(masked_body, m.end())
        if ob < 0:
            continue
        out.append((m.start(), ob))
    return out
