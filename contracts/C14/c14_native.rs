//! C14 — BOUNDED STAND-IN (not a proof) for the initialisation kernels (rejection-sampling loops over a symbolic RNG are
//! unbounded for Kani; iterator chains for Verus): "exactly the requested number of [...] individuals of the problem's
//! dimension, each real coordinate inside its domain bounds, each permutation a permutation of all positions".
use super::*;
use crate::{components::initialization::functional::{random_bitstring, random_permutation, random_spread}, state::random::Random};

// @native-harness
pub fn c14_native_initialisation() {
    let mut cases = 0u64;
    // (the last two: domains only 1-3 representable numbers wide, where an implementation that samples the CLOSED interval
    //  shows the upper bound itself; a problem's domain is a `Range<f64>`, whose own membership test is half-open)
    let domains: [&[std::ops::Range<f64>]; 6] = [&[], &[0.0..1.0], &[-5.0..5.0, 2.0..2.5], &[-1.0e6..-1.0e3, 0.0..1.0e-9, -0.5..0.5],
        &[1.0..1.0000000000000002, 1.0e16..1.0000000000000004e16, -1.0..-0.9999999999999998], &[5.0e-324..1.5e-323, -4.0..-3.9999999999999996]];
    for seed in 0..40u64 {
        let mut rng = Random::new(seed);
        for size in 0..=4usize {
            for dom in domains {
                let pop = random_spread(dom, size, &mut rng);
                if pop.len() != size { panic!("random_spread: wrong number of solutions"); }
                for s in &pop {
                    if s.len() != dom.len() { panic!("random_spread: wrong dimension"); }
                    for (x, r) in s.iter().zip(dom.iter()) {
                        if !r.contains(x) { eprintln!("COUNTEREXAMPLE seed={seed} x={x:e} domain={r:?}"); panic!("random_spread: coordinate outside its domain"); }
                    }
                }
                cases += 1;
            }
            for dim in 0..=5usize {
                let pop = random_permutation(dim, size, &mut rng);
                if pop.len() != size { panic!("random_permutation: wrong number of solutions"); }
                for s in &pop {
                    let mut t = s.clone(); t.sort();
                    if t != (0..dim).collect::<Vec<_>>() { eprintln!("COUNTEREXAMPLE seed={seed} {s:?}"); panic!("random_permutation: not a permutation of all positions"); }
                }
                let bits = random_bitstring(dim, 0.5, size, &mut rng);
                if bits.len() != size || bits.iter().any(|b| b.len() != dim) { panic!("random_bitstring: wrong size or dimension"); }
                cases += 1;
            }
        }
    }
    println!("c14_native_initialisation: {} cases checked", cases);
}

// ------------------------------------------------------------------------------------------------------------------
// BOUNDED STAND-IN (not a proof) at COMPONENT level (State + generator; the kernels themselves are the Kani harnesses and
// the enumeration above): initialisation components push exactly one population of the requested number of UNEVALUATED
// individuals of the problem's dimension inside the domain / a permutation of all positions; each boundary-repair component
// terminates, leaves every coordinate within the bounds, changes no coordinate that already was inside, and is idempotent.
use crate::{
    components::{boundary::{CompleteOneTailedNormalCorrection, Mirror, Saturation, Toroidal},
                 initialization::{Empty, RandomBitstring, RandomPermutation, RandomSpread}},
    problems::{LimitedVectorProblem, Problem, VectorProblem},
    state::common::Populations,
    Component, Individual, SingleObjective, State,
};

pub struct Boxed(pub Vec<std::ops::Range<f64>>);
impl Problem for Boxed {
    type Encoding = Vec<f64>;
    type Objective = SingleObjective;
    fn name(&self) -> &str { "Boxed" }
}
impl VectorProblem for Boxed {
    type Element = f64;
    fn dimension(&self) -> usize { self.0.len() }
}
impl LimitedVectorProblem for Boxed {
    fn domain(&self) -> Vec<std::ops::Range<f64>> { self.0.clone() }
}
pub struct Perm(pub usize);
impl Problem for Perm {
    type Encoding = Vec<usize>;
    type Objective = SingleObjective;
    fn name(&self) -> &str { "Perm" }
}
impl VectorProblem for Perm {
    type Element = usize;
    fn dimension(&self) -> usize { self.0 }
}
pub struct Bits(pub usize);
impl Problem for Bits {
    type Encoding = Vec<bool>;
    type Objective = SingleObjective;
    fn name(&self) -> &str { "Bits" }
}
impl VectorProblem for Bits {
    type Element = bool;
    fn dimension(&self) -> usize { self.0 }
}

fn fresh<P: Problem>(seed: u64) -> State<'static, P> {
    let mut state: State<P> = State::new();
    state.insert(Random::new(seed));
    state.insert(Populations::<P>::new());
    state
}

// @native-harness
pub fn c14_native_components() {
    let mut cases = 0u64;
    let domains: [Vec<std::ops::Range<f64>>; 3] = [vec![0.0..1.0], vec![-5.0..5.0, 2.0..2.5], vec![-1.0e3..-1.0e2, 0.0..1.0e-6, -0.5..0.5]];
    // ---- initialisation components
    for seed in 0..16u64 {
        for n in [0u32, 1, 2, 7] {
            for d in &domains {
                let p = Boxed(d.clone());
                let mut state = fresh::<Boxed>(seed);
                state.populations_mut().push(vec![Individual::new_unevaluated(vec![9.0; d.len()])]);
                RandomSpread::new::<Boxed, f64>(n).execute(&p, &mut state).expect("RandomSpread must not fail");
                let pops = state.populations();
                let fail = |why: &str| -> ! { eprintln!("COUNTEREXAMPLE RandomSpread n={n} domain={d:?} seed={seed}: {why}"); panic!("initialisation component violates C14") };
                if pops.len() != 2 || pops.peek(1).len() != 1 { fail("not exactly one population was pushed") }
                if pops.current().len() != n as usize { fail("not exactly the requested number of individuals") }
                for i in pops.current() {
                    if i.is_evaluated() { fail("a fresh individual is already evaluated") }
                    if i.solution().len() != d.len() { fail("wrong dimension") }
                    if i.solution().iter().zip(d).any(|(x, r)| !(r.start <= *x && *x <= r.end)) { fail("a coordinate lies outside its domain bounds") }
                }
                cases += 1;
            }
            for dim in [0usize, 1, 2, 5] {
                let mut state = fresh::<Perm>(seed);
                RandomPermutation::new::<Perm>(n).execute(&Perm(dim), &mut state).expect("RandomPermutation must not fail");
                let pops = state.populations();
                let fail = |why: &str| -> ! { eprintln!("COUNTEREXAMPLE RandomPermutation n={n} dimension={dim} seed={seed}: {why}"); panic!("initialisation component violates C14") };
                if pops.len() != 1 || pops.current().len() != n as usize { fail("not exactly one population of the requested size") }
                for i in pops.current() {
                    let mut s = i.solution().clone(); s.sort_unstable();
                    if i.is_evaluated() || s != (0..dim).collect::<Vec<_>>() { fail("not an unevaluated permutation of all positions") }
                }
                let mut state = fresh::<Bits>(seed);
                RandomBitstring::new_uniform::<Bits>(n).execute(&Bits(dim), &mut state).expect("RandomBitstring must not fail");
                let pops = state.populations();
                if pops.len() != 1 || pops.current().len() != n as usize || pops.current().iter().any(|i| i.is_evaluated() || i.solution().len() != dim) {
                    eprintln!("COUNTEREXAMPLE RandomBitstring n={n} dimension={dim} seed={seed}"); panic!("initialisation component violates C14")
                }
                cases += 1;
            }
        }
        let mut state = fresh::<Perm>(seed);
        <Empty as Component<Perm>>::execute(&Empty, &Perm(3), &mut state).unwrap();
        if state.populations().len() != 1 || !state.populations().current().is_empty() { panic!("Empty must push exactly one empty population") }
    }
    // ---- boundary-repair components: grid of coordinates relative to each domain (inside, on the bounds, outside near and far)
    let rel = [-1.0e6, -37.25, -4.75, -3.5, -2.5, -2.0, -1.5, -1.25, -1.0, -0.5, -1.0e-9, 0.0, 1.0e-9, 0.25, 0.5, 1.0 - 1.0e-9, 1.0, 1.0 + 1.0e-9, 1.5, 2.0, 2.25, 2.5, 3.0, 3.5, 4.75, 41.75, 1.0e6];
    for d in &domains {
        let p = Boxed(d.clone());
        let pop: Vec<Vec<f64>> = rel.iter().map(|t| d.iter().map(|r| r.start + t * (r.end - r.start)).collect()).collect();
        let ops: Vec<(&str, Box<dyn Component<Boxed>>)> = vec![("Saturation", Saturation::new()), ("Toroidal", Toroidal::new()), ("Mirror", Mirror::new()),
                                                              ("CompleteOneTailedNormalCorrection", CompleteOneTailedNormalCorrection::new())];
        for (name, op) in &ops {
            // the resampling operator draws from a normal distribution: rare large draws matter, so it gets many more seeds
            // seeds >= 1000: the same grid on individuals that already CARRY an objective value (repair must not depend on the
            // evaluation status: "every coordinate of every individual ends up inside the domain")
            for seed in (0..(if *name == "CompleteOneTailedNormalCorrection" { 160u64 } else { 8 })).chain(1000..1008) {
                let evaluated = seed >= 1000;
                let mut state = fresh::<Boxed>(seed);
                state.populations_mut().push(vec![Individual::new_unevaluated(vec![77.0; d.len()])]);
                state.populations_mut().push(pop.iter().cloned().map(|x| if evaluated { Individual::new(x, crate::SingleObjective::try_from(1.5).unwrap()) } else { Individual::new_unevaluated(x) }).collect());
                op.execute(&p, &mut state).expect("boundary repair must not fail");
                let once: Vec<Vec<f64>> = state.populations().current().iter().map(|i| i.solution().clone()).collect();
                op.execute(&p, &mut state).expect("boundary repair must not fail");
                let twice: Vec<Vec<f64>> = state.populations().current().iter().map(|i| i.solution().clone()).collect();
                let fail = |why: String| -> ! { eprintln!("COUNTEREXAMPLE op={name} domain={d:?} seed={seed}: {why}"); panic!("boundary repair component violates C14") };
                if state.populations().len() != 2 || *state.populations().peek(1)[0].solution() != vec![77.0; d.len()] { fail("the population below was disturbed or the stack height changed".into()) }
                if once.len() != pop.len() { fail("the number of individuals changed".into()) }
                for (k, (before, after)) in pop.iter().zip(&once).enumerate() {
                    for (j, r) in d.iter().enumerate() {
                        let w = r.end - r.start;
                        if !(after[j] >= r.start - 1e-9 * w && after[j] <= r.end + 1e-9 * w) { fail(format!("coordinate {j} of {before:?} was repaired to {} outside [{}, {}]", after[j], r.start, r.end)) }
                        if before[j] >= r.start && before[j] <= r.end && after[j] != before[j] { fail(format!("coordinate {j} = {} was inside [{}, {}] but changed to {}", before[j], r.start, r.end, after[j])) }
                        if after[j] >= r.start && after[j] <= r.end && twice[k][j] != after[j] { fail(format!("not idempotent: coordinate {j} {} -> {} -> {}", before[j], after[j], twice[k][j])) }
                    }
                }
                cases += 1;
            }
        }
    }
    println!("c14_native_components: {} cases checked", cases);
}
