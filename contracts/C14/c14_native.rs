//! C14 — BOUNDED STAND-IN (not a proof) for the initialisation kernels (rejection-sampling loops over a symbolic RNG are
//! unbounded for Kani; iterator chains for Verus): "exactly the requested number of [...] individuals of the problem's
//! dimension, each real coordinate inside its domain bounds, each permutation a permutation of all positions".
use super::*;
use crate::{components::initialization::functional::{random_bitstring, random_permutation, random_spread}, state::random::Random};

// @native-harness
pub fn c14_native_initialisation() {
    let mut cases = 0u64;
    let domains: [&[std::ops::Range<f64>]; 4] = [&[], &[0.0..1.0], &[-5.0..5.0, 2.0..2.5], &[-1.0e6..-1.0e3, 0.0..1.0e-9, -0.5..0.5]];
    for seed in 0..40u64 {
        let mut rng = Random::new(seed);
        for size in 0..=4usize {
            for dom in domains {
                let pop = random_spread(dom, size, &mut rng);
                if pop.len() != size { panic!("random_spread: wrong number of solutions"); }
                for s in &pop {
                    if s.len() != dom.len() { panic!("random_spread: wrong dimension"); }
                    for (x, r) in s.iter().zip(dom.iter()) {
                        if !(*x >= r.start && *x <= r.end) { eprintln!("COUNTEREXAMPLE seed={seed} x={x} domain={r:?}"); panic!("random_spread: coordinate outside its domain"); }
                    }
                }
                cases += 1;
            }
            for dim in 0..=5usize {
                let pop = random_permutation(dim, size, &mut rng);
                if pop.len() != size { panic!("random_permutation: wrong number of solutions"); }
                for s in &pop {
                    let mut t = s.clone(); t.sort();
                    if t != (0..dim).collect::<Vec<_>>() { eprintln!("COUNTEREXAMPLE seed={seed} {s:?}"); panic!("random_permutation: not a permutation of all positions"); }
                }
                let bits = random_bitstring(dim, 0.5, size, &mut rng);
                if bits.len() != size || bits.iter().any(|b| b.len() != dim) { panic!("random_bitstring: wrong size or dimension"); }
                cases += 1;
            }
        }
    }
    println!("c14_native_initialisation: {} cases checked", cases);
}
