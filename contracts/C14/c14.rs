//! C14 — boundary repair keeps every coordinate inside the domain (per-coordinate kernels).
//! Hoare triples on the real `BoundaryConstraint::constrain` implementations with a harness-defined
//! one-dimensional `LimitedVectorProblem`; x, a, b fully symbolic f64 inside the stated regime.
use std::ops::Range;

use super::*;
use crate::{
    components::boundary::{BoundaryConstraint, CompleteOneTailedNormalCorrection, Mirror, Saturation, Toroidal},
    problems::{LimitedVectorProblem, Problem, VectorProblem},
    state::random::Random,
    SingleObjective,
};

pub struct Box1 { lo: f64, hi: f64 }
impl Problem for Box1 {
    type Encoding = Vec<f64>;
    type Objective = SingleObjective;
    fn name(&self) -> &str { "Box1" }
}
impl VectorProblem for Box1 {
    type Element = f64;
    fn dimension(&self) -> usize { 1 }
}
impl LimitedVectorProblem for Box1 {
    fn domain(&self) -> Vec<Range<f64>> { vec![self.lo..self.hi] }
}

/// regime (DESIGN §4 C14): finite domain a < b with |a|,|b| <= 1e3 and width >= 2^-20
fn sym_domain() -> (f64, f64) {
    let (a, b): (f64, f64) = (sym(), sym());
    assume(a.is_finite() && b.is_finite());
    assume(a >= -1.0e3 && b <= 1.0e3 && b - a >= 9.5367431640625e-7);
    (a, b)
}
/// "up to floating-point rounding of the bound arithmetic"
fn tol(a: f64, b: f64) -> f64 {
    let m = if a.abs() > b.abs() { a.abs() } else { b.abs() };
    let m = if m > 1.0 { m } else { 1.0 };
    8.0 * f64::EPSILON * m
}
fn apply<C: BoundaryConstraint<Box1>>(c: &C, x: f64, a: f64, b: f64) -> f64 {
    let p = Box1 { lo: a, hi: b };
    let mut rng = Random::with_rng::<SymRng>(0);
    let mut s = vec![x];
    c.constrain(&mut s, &p, &mut rng);
    assert!(s.len() == 1, "repair changed the dimension");
    s[0]
}

/// @verif anchor=Saturation::constrain
#[cfg_attr(kani, kani::proof)] #[cfg_attr(kani, kani::unwind(3))]
pub fn c14_saturation() {
    let (a, b) = sym_domain();
    let x: f64 = sym();
    assume(x.is_finite());
    let y = apply(&Saturation, x, a, b);
    assert!(y >= a && y <= b, "Saturation: result outside the domain");
    if x >= a && x <= b {
        assert!(y.to_bits() == x.to_bits(), "Saturation changed a coordinate that was inside");
    }
    let z = apply(&Saturation, y, a, b);
    assert!(z.to_bits() == y.to_bits(), "Saturation is not idempotent");
    vcover!(x < a);
    vcover!(x > b);
}

/// @verif anchor=Toroidal::constrain bound="regime: |x - a| <= 2^40 * width"
#[cfg_attr(kani, kani::proof)] #[cfg_attr(kani, kani::unwind(3))]
pub fn c14_toroidal() {
    let (a, b) = sym_domain();
    let x: f64 = sym();
    assume(x.is_finite());
    assume((x - a).abs() <= 1.099511627776e12 * (b - a));
    let y = apply(&Toroidal, x, a, b);
    let t = tol(a, b);
    assert!(y >= a - t && y <= b + t, "Toroidal: result outside the domain");
    if x >= a && x <= b {
        assert!(y.to_bits() == x.to_bits(), "Toroidal changed a coordinate that was inside");
    }
    vcover!(x < a);
    vcover!(x > b);
}

/// idempotence of Toroidal: a second application leaves an in-domain result unchanged (follows from
/// "unchanged if inside" whenever the first result is strictly inside; the rounding margin is excluded)
/// @verif anchor=Toroidal::constrain bound="regime: |x - a| <= 2^40 * width"
#[cfg_attr(kani, kani::proof)] #[cfg_attr(kani, kani::unwind(3))]
pub fn c14_toroidal_idempotent() {
    let (a, b) = sym_domain();
    let x: f64 = sym();
    assume(x.is_finite());
    assume((x - a).abs() <= 1.099511627776e12 * (b - a));
    let y = apply(&Toroidal, x, a, b);
    if y >= a && y <= b {
        let z = apply(&Toroidal, y, a, b);
        assert!(z.to_bits() == y.to_bits(), "Toroidal is not idempotent");
    }
}

/// Mirror: terminates (unwinding assertion), ends inside, leaves inside coordinates unchanged.
/// @verif anchor=Mirror::constrain termination=true bound="|x - [a,b]| <= 3 widths; loop unwound 6 times with unwinding assertion"
#[cfg_attr(kani, kani::proof)] #[cfg_attr(kani, kani::unwind(6))]
pub fn c14_mirror() {
    let (a, b) = sym_domain();
    let x: f64 = sym();
    assume(x.is_finite());
    assume(x >= a - 3.0 * (b - a) && x <= b + 3.0 * (b - a));
    let y = apply(&Mirror, x, a, b);
    let t = tol(a, b);
    assert!(y >= a - t && y <= b + t, "Mirror: result outside the domain");
    if x >= a && x <= b {
        assert!(y.to_bits() == x.to_bits(), "Mirror changed a coordinate that was inside");
    }
    vcover!(x < a);
    vcover!(x > b);
    vcover!(x == b);
}

/// special points for Mirror with concrete domain [-1, 2]: the bounds themselves and whole multiples of
/// the width outside (replayable inputs for non-termination findings)
/// @verif anchor=Mirror::constrain termination=true bound="domain [-1,2]; x in {a, b, b + w, a - w, b + 2w, a - 2w}; unwind 6"
#[cfg_attr(kani, kani::proof)] #[cfg_attr(kani, kani::unwind(6))]
pub fn c14_mirror_special_points() {
    let (a, b) = (-1.0f64, 2.0f64);
    let k: u8 = sym();
    assume(k < 6);
    let w = b - a;
    let x = match k { 0 => a, 1 => b, 2 => b + w, 3 => a - w, 4 => b + 2.0 * w, _ => a - 2.0 * w };
    let y = apply(&Mirror, x, a, b);
    assert!(y >= a && y <= b, "Mirror: result outside the domain");
    if k <= 1 { assert!(y == x, "Mirror changed a bound coordinate"); }
}

/// One-tailed normal correction: the parts that do not depend on the sampler's distribution —
/// a coordinate inside (including both bounds) is returned unchanged without sampling and the call terminates.
/// @verif anchor=CompleteOneTailedNormalCorrection::constrain termination=true bound="only coordinates already inside [a,b]; sampler not entered"
#[cfg_attr(kani, kani::proof)] #[cfg_attr(kani, kani::unwind(3))]
pub fn c14_cotnc_inside() {
    let (a, b) = sym_domain();
    let x: f64 = sym();
    assume(x >= a && x <= b);
    let y = apply(&CompleteOneTailedNormalCorrection, x, a, b);
    assert!(y.to_bits() == x.to_bits(), "correction changed a coordinate that was inside");
    vcover!(x == b);
    vcover!(x == a);
}
