//! C14 — boundary repair keeps every coordinate inside the domain (per-coordinate kernels).
//! Hoare triples on the real `BoundaryConstraint::constrain` implementations with a harness-defined
//! one-dimensional `LimitedVectorProblem`; x, a, b fully symbolic f64 inside the stated regime.
use std::ops::Range;

use super::*;
use crate::{
    components::boundary::{BoundaryConstraint, CompleteOneTailedNormalCorrection, Mirror, Saturation, Toroidal},
    problems::{LimitedVectorProblem, Problem, VectorProblem},
    state::random::Random,
    SingleObjective,
};

pub struct Box1 { lo: f64, hi: f64 }
impl Problem for Box1 {
    type Encoding = Vec<f64>;
    type Objective = SingleObjective;
    fn name(&self) -> &str { "Box1" }
}
impl VectorProblem for Box1 {
    type Element = f64;
    fn dimension(&self) -> usize { 1 }
}
impl LimitedVectorProblem for Box1 {
    fn domain(&self) -> Vec<Range<f64>> { vec![self.lo..self.hi] }
}

/// "up to floating-point rounding of the bound arithmetic"
fn tol(a: f64, b: f64) -> f64 {
    let m = if a.abs() > b.abs() { a.abs() } else { b.abs() };
    let m = if m > 1.0 { m } else { 1.0 };
    8.0 * f64::EPSILON * m
}
fn apply<C: BoundaryConstraint<Box1>>(c: &C, x: f64, a: f64, b: f64) -> f64 {
    let p = Box1 { lo: a, hi: b };
    let mut rng = Random::with_rng::<SymRng>(0);
    let mut s = vec![x];
    c.constrain(&mut s, &p, &mut rng);
    assert!(s.len() == 1, "repair changed the dimension");
    s[0]
}

/// Saturation: domain AND coordinate fully symbolic (all finite domains a < b, all finite x) — complete.
/// @verif anchor=Saturation::constrain
#[cfg_attr(kani, kani::proof)] #[cfg_attr(kani, kani::unwind(3))]
pub fn c14_saturation() {
    let (a, b, x): (f64, f64, f64) = (sym(), sym(), sym());
    assume(a.is_finite() && b.is_finite() && a < b && x.is_finite());
    let y = apply(&Saturation, x, a, b);
    assert!(y >= a && y <= b, "Saturation: result outside the domain");
    if x >= a && x <= b {
        assert!(y.to_bits() == x.to_bits(), "Saturation changed a coordinate that was inside");
    }
    let z = apply(&Saturation, y, a, b);
    assert!(z.to_bits() == y.to_bits(), "Saturation is not idempotent");
    vcover!(x < a);
    vcover!(x > b);
}

/// Toroidal on a concrete domain, coordinate symbolic within 2^20 widths ("whole and fractional multiples of the
/// width up to a large factor on both sides"): inside up to rounding, unchanged if inside, idempotent.
fn toroidal(a: f64, b: f64) {
    let x: f64 = sym();
    assume(x.is_finite());
    assume((x - a).abs() <= 1048576.0 * (b - a));
    let y = apply(&Toroidal, x, a, b);
    let t = tol(a, b);
    assert!(y >= a - t && y <= b + t, "Toroidal: result outside the domain");
    if x >= a && x <= b {
        assert!(y.to_bits() == x.to_bits(), "Toroidal changed a coordinate that was inside");
    }
    if y >= a && y <= b {
        let z = apply(&Toroidal, y, a, b);
        assert!(z.to_bits() == y.to_bits(), "Toroidal is not idempotent");
    }
    vcover!(x < a);
    vcover!(x > b);
}
/// @verif anchor=Toroidal::constrain bound="domain [-1, 2]; all x with |x - a| <= 2^20 widths"
#[cfg_attr(kani, kani::proof)] #[cfg_attr(kani, kani::unwind(3))]
pub fn c14_toroidal_m1_2() { toroidal(-1.0, 2.0) }
/// @verif anchor=Toroidal::constrain bound="domain [0, 1]; all x with |x - a| <= 2^20 widths"
#[cfg_attr(kani, kani::proof)] #[cfg_attr(kani, kani::unwind(3))]
pub fn c14_toroidal_0_1() { toroidal(0.0, 1.0) }
/// @verif anchor=Toroidal::constrain tier=thorough bound="domain [-5.12, 5.12]; all x with |x - a| <= 2^20 widths"
#[cfg_attr(kani, kani::proof)] #[cfg_attr(kani, kani::unwind(3))]
pub fn c14_toroidal_512() { toroidal(-5.12, 5.12) }

/// Mirror: terminates (unwinding assertion), ends inside, leaves inside coordinates unchanged.
fn mirror(a: f64, b: f64) {
    let x: f64 = sym();
    assume(x.is_finite());
    assume(x >= a - 3.0 * (b - a) && x <= b + 3.0 * (b - a));
    let y = apply(&Mirror, x, a, b);
    let t = tol(a, b);
    assert!(y >= a - t && y <= b + t, "Mirror: result outside the domain");
    if x >= a && x <= b {
        assert!(y.to_bits() == x.to_bits(), "Mirror changed a coordinate that was inside");
    }
    vcover!(x < a);
    vcover!(x > b);
    vcover!(x == b);
}
/// @verif anchor=Mirror::constrain termination=true bound="domain [-1, 2]; all x within 3 widths of the domain; loop unwound 6 times with unwinding assertion"
#[cfg_attr(kani, kani::proof)] #[cfg_attr(kani, kani::unwind(6))]
pub fn c14_mirror_m1_2() { mirror(-1.0, 2.0) }
/// @verif anchor=Mirror::constrain termination=true tier=thorough bound="domain [0, 1]; all x within 3 widths; unwind 6"
#[cfg_attr(kani, kani::proof)] #[cfg_attr(kani, kani::unwind(6))]
pub fn c14_mirror_0_1() { mirror(0.0, 1.0) }

/// special points for Mirror, domain [-1, 2], each a CONCRETE harness (Kani prints no input for unwinding-assertion
/// failures, so every point is its own replayable input; native replay runs it under a watchdog)
fn mirror_point(x: f64, on_bound: bool) {
    let (a, b) = (-1.0f64, 2.0f64);
    let y = apply(&Mirror, x, a, b);
    assert!(y >= a && y <= b, "Mirror: result outside the domain");
    if on_bound { assert!(y == x, "Mirror changed a bound coordinate"); }
}
/// @verif anchor=Mirror::constrain termination=true bound="domain [-1,2]; x = the lower bound; unwind 6"
#[cfg_attr(kani, kani::proof)] #[cfg_attr(kani, kani::unwind(6))]
pub fn c14_mirror_at_a() { let (a, b) = (-1.0f64, 2.0f64); mirror_point(a, true) }
/// @verif anchor=Mirror::constrain termination=true bound="domain [-1,2]; x = the upper bound; unwind 6"
#[cfg_attr(kani, kani::proof)] #[cfg_attr(kani, kani::unwind(6))]
pub fn c14_mirror_at_b() { let (a, b) = (-1.0f64, 2.0f64); mirror_point(b, true) }
/// @verif anchor=Mirror::constrain termination=true bound="domain [-1,2]; x = one width above; unwind 6"
#[cfg_attr(kani, kani::proof)] #[cfg_attr(kani, kani::unwind(6))]
pub fn c14_mirror_b_plus_w() { let (a, b) = (-1.0f64, 2.0f64); mirror_point(b + (b - a), false) }
/// @verif anchor=Mirror::constrain termination=true bound="domain [-1,2]; x = one width below (reflects onto the upper bound); unwind 6"
#[cfg_attr(kani, kani::proof)] #[cfg_attr(kani, kani::unwind(6))]
pub fn c14_mirror_a_minus_w() { let (a, b) = (-1.0f64, 2.0f64); mirror_point(a - (b - a), false) }
/// @verif anchor=Mirror::constrain termination=true bound="domain [-1,2]; x = two widths above; unwind 6"
#[cfg_attr(kani, kani::proof)] #[cfg_attr(kani, kani::unwind(6))]
pub fn c14_mirror_b_plus_2w() { let (a, b) = (-1.0f64, 2.0f64); mirror_point(b + 2.0 * (b - a), false) }
/// @verif anchor=Mirror::constrain termination=true bound="domain [-1,2]; x = two widths below; unwind 6"
#[cfg_attr(kani, kani::proof)] #[cfg_attr(kani, kani::unwind(6))]
pub fn c14_mirror_a_minus_2w() { let (a, b) = (-1.0f64, 2.0f64); mirror_point(a - 2.0 * (b - a), false) }

/// the resampling operator at the two bounds (concrete, replayable): returned unchanged, terminates
/// @verif anchor=CompleteOneTailedNormalCorrection::constrain termination=true bound="domain [-1,2]; x = upper bound; unwind 3"
#[cfg_attr(kani, kani::proof)] #[cfg_attr(kani, kani::unwind(3))]
pub fn c14_cotnc_at_b() {
    let y = apply(&CompleteOneTailedNormalCorrection, 2.0, -1.0, 2.0);
    assert!(y == 2.0, "correction changed a bound coordinate");
}
/// @verif anchor=CompleteOneTailedNormalCorrection::constrain termination=true bound="domain [-1,2]; x = lower bound; unwind 3"
#[cfg_attr(kani, kani::proof)] #[cfg_attr(kani, kani::unwind(3))]
pub fn c14_cotnc_at_a() {
    let y = apply(&CompleteOneTailedNormalCorrection, -1.0, -1.0, 2.0);
    assert!(y == -1.0, "correction changed a bound coordinate");
}

/// One-tailed normal correction: the parts that do not depend on the sampler's distribution —
/// a coordinate inside (including both bounds) is returned unchanged without sampling and the call terminates.
/// @verif anchor=CompleteOneTailedNormalCorrection::constrain termination=true tier=thorough bound="domain [-1, 2]; only coordinates already inside [a,b]; sampler not entered"
#[cfg_attr(kani, kani::proof)] #[cfg_attr(kani, kani::unwind(3))]
pub fn c14_cotnc_inside() {
    let (a, b) = (-1.0f64, 2.0f64);
    let x: f64 = sym();
    assume(x >= a && x <= b);
    let y = apply(&CompleteOneTailedNormalCorrection, x, a, b);
    assert!(y.to_bits() == x.to_bits(), "correction changed a coordinate that was inside");
    vcover!(x == b);
    vcover!(x == a);
}
