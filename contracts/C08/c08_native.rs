//! C08 — BOUNDED STAND-IN (not a proof): "two runs of the same configuration on the same problem with the same random seed
//! produce identical results (final population stack, best individual, counters and log) regardless of whether evaluation is
//! sequential or parallel ... and whether the configuration object was cloned first.  Child generators derived from a seeded
//! generator are a deterministic function of that seed, different seeds give different streams."
//! Determinism of two runs is a 2-safety property and thread independence quantifies over schedules: no function-level contract
//! decides them (the one contract-shaped clause, "a generator supplied by the user is never replaced", is the Verus unit
//! `optimize`).  Native runs of the real shipped templates: same seed twice, sequential vs parallel evaluator (the parallel
//! run is repeated 3 times: whatever schedules rayon happens to produce), cloned configuration; plus the generator itself.
use rand::RngCore;

use super::*;
use crate::{
    configuration::Configuration,
    problems::{ObjectiveFunction, Parallel, Sequential, SingleObjectiveProblem},
    state::random::Random,
    State,
};

#[derive(PartialEq, Debug, Clone)]
pub struct Fingerprint { stack: String, best: String, evaluations: u32, iterations: u32, log: String }

fn fingerprint<P>(state: &State<P>) -> Fingerprint where P: SingleObjectiveProblem, P::Encoding: std::fmt::Debug {
    let pops = state.populations();
    let mut stack = String::new();
    for d in 0..pops.len() {
        stack += &format!("[depth {d}: {:?}]", pops.peek(d).iter().map(|i| (format!("{:?}", i.solution()), i.get_objective().map(|o| o.value().to_bits()))).collect::<Vec<_>>());
    }
    let best = format!("{:?}", state.best_individual().map(|b| (format!("{:?}", b.solution()), b.objective().value().to_bits())));
    let log = serde_json::to_string(&*state.log()).unwrap();
    Fingerprint { stack, best, evaluations: state.evaluations(), iterations: state.iterations(), log }
}

fn run<P>(config: &Configuration<P>, problem: &P, seed: u64, parallel: bool) -> Fingerprint
where P: SingleObjectiveProblem + ObjectiveFunction + Sync + 'static, P::Encoding: std::fmt::Debug + Send,
{
    let state = config.optimize_with(problem, |state: &mut State<P>| {
        if parallel { state.insert_evaluator(Parallel::<P>::new()); } else { state.insert_evaluator(Sequential::<P>::new()); }
        state.insert(Random::new(seed));
        Ok(())
    }).expect("a shipped template must run");
    fingerprint(&state)
}

fn check_template<P>(name: &str, config: Configuration<P>, problem: &P, stochastic: bool, other: Option<&P>) -> u64
where P: SingleObjectiveProblem + ObjectiveFunction + Sync + 'static, P::Encoding: std::fmt::Debug + Send,
{
    let mut n = 0;
    // `Configuration<P>: Clone` needs `P: Clone` (derive bound); the component tree itself is cloned the same way
    let inner = config.into_inner();
    let cloned = Configuration::new(inner.clone());
    let pristine = inner.clone();   // never run: the reference for "a fresh configuration"
    let mut config = Configuration::new(inner);
    for seed in [1u64, 2] {
        let a = run(&config, problem, seed, false);
        let fail = |what: &str, b: &Fingerprint| -> ! {
            let field = if a.stack != b.stack { "final population stack" } else if a.best != b.best { "best individual" } else if a.evaluations != b.evaluations || a.iterations != b.iterations { "counters" } else { "log" };
            eprintln!("COUNTEREXAMPLE template={name} seed={seed}: {what}: the {field} differs\n  first : {a:?}\n  second: {b:?}");
            panic!("same seed, different run")
        };
        let b = run(&config, problem, seed, false);
        if a != b { fail("two sequential runs with the same seed differ", &b) }
        let c = run(&cloned, problem, seed, false);
        if a != c { fail("a cloned configuration gives a different run", &c) }
        for _ in 0..3 {
            let p = run(&config, problem, seed, true);
            if a != p { fail("parallel evaluation gives a different run than sequential evaluation", &p) }
        }
        n += 6;
        // a configuration object carries no memory of earlier runs: after a run on ANOTHER instance of the problem type
        // (other dimension, other domain) it still behaves like a fresh one, and so does a clone taken after that use
        if let Some(other) = other {
            let o_fresh = run(&Configuration::new(pristine.clone()), other, seed, false);
            let o_used = run(&config, other, seed, false);
            if o_fresh != o_used {
                eprintln!("COUNTEREXAMPLE template={name} seed={seed}: a configuration object used before on another problem instance runs differently from a fresh one\n  fresh: {o_fresh:?}\n  used : {o_used:?}");
                panic!("same seed, different run")
            }
            let d = run(&config, problem, seed, false);
            if a != d { fail("a configuration that was run on another problem instance in between gives a different run", &d) }
            let used = config.into_inner();
            let used_clone = Configuration::new(used.clone());
            config = Configuration::new(used);
            let e = run(&used_clone, problem, seed, false);
            if a != e { fail("a clone taken from a used configuration gives a different run", &e) }
            n += 2;
        }
    }
    if stochastic && run(&config, problem, 1, false) == run(&config, problem, 2, false) {
        eprintln!("COUNTEREXAMPLE template={name}: seeds 1 and 2 give identical runs");
        panic!("different seeds must give different streams");
    }
    n
}

// @native-harness
pub fn c08_native_determinism() {
    let mut cases = 0u64;
    // ---- the generator itself
    for seed in [0u64, 1, 42, u64::MAX] {
        let (mut a, mut b) = (Random::new(seed), Random::new(seed));
        let (sa, sb): (Vec<u64>, Vec<u64>) = ((0..8).map(|_| a.next_u64()).collect(), (0..8).map(|_| b.next_u64()).collect());
        if sa != sb { eprintln!("COUNTEREXAMPLE Random::new({seed}) gives two different streams"); panic!("a seeded generator must be deterministic") }
        let mut other = Random::new(seed.wrapping_add(1));
        if sa == (0..8).map(|_| other.next_u64()).collect::<Vec<_>>() { eprintln!("COUNTEREXAMPLE seeds {seed} and {} give the same stream", seed.wrapping_add(1)); panic!("different seeds must give different streams") }
        // children: a deterministic function of the parent's seed, distinct from each other and from the parent
        let (mut p1, mut p2) = (Random::new(seed), Random::new(seed));
        let c1: Vec<(u64, Vec<u64>)> = p1.iter_children().take(3).map(|mut c| (c.config().seed, (0..4).map(|_| c.next_u64()).collect())).collect();
        let c2: Vec<(u64, Vec<u64>)> = p2.iter_children().take(3).map(|mut c| (c.config().seed, (0..4).map(|_| c.next_u64()).collect())).collect();
        if c1 != c2 { eprintln!("COUNTEREXAMPLE children of Random::new({seed}) differ between two derivations: {c1:?} vs {c2:?}"); panic!("child generators must be a deterministic function of the seed") }
        if c1[0].1 == c1[1].1 || c1[1].1 == c1[2].1 || c1[0].1 == sa[..4] { eprintln!("COUNTEREXAMPLE children of Random::new({seed}) repeat a stream: {c1:?}"); panic!("child generators must have their own streams") }
        // a child derived from a child is again deterministic
        let g1 = Random::new(seed).iter_children().next().unwrap().iter_children().next().unwrap().next_u64();
        let g2 = Random::new(seed).iter_children().next().unwrap().iter_children().next().unwrap().next_u64();
        if g1 != g2 { panic!("grandchild generators must be deterministic") }
        cases += 1;
    }
    // ---- the two evaluators compute the same thing on ANY population, including individuals that arrive already carrying a
    //      (stale or placeholder) objective value: "regardless of whether evaluation is sequential or parallel"
    {
        use crate::{problems::Evaluate, Individual, SingleObjective};
        let sp = whole_run_native::Sphere { returned: std::sync::Mutex::new(Vec::new()), alt: false };
        for n in 0..=5usize {
            for mask in 0..(1u32 << n) {
                let make = || -> Vec<Individual<whole_run_native::Sphere>> { (0..n).map(|i| {
                    let x = vec![i as f64, 0.5 * i as f64, -1.0];
                    if mask >> i & 1 == 1 { Individual::new(x, SingleObjective::try_from(f64::INFINITY).unwrap()) } else { Individual::new_unevaluated(x) }
                }).collect() };
                let (mut a, mut b) = (make(), make());
                let mut st: State<whole_run_native::Sphere> = State::new();
                Sequential::<whole_run_native::Sphere>::new().evaluate(&sp, &mut st, &mut a);
                Parallel::<whole_run_native::Sphere>::new().evaluate(&sp, &mut st, &mut b);
                if a != b || b.iter().any(|i| i.objective().value() != whole_run_native::sphere(i.solution())) {
                    eprintln!("COUNTEREXAMPLE evaluators: population of {n} with pre-evaluated mask {mask:b}: sequential gives {:?}, parallel gives {:?}",
                              a.iter().map(|i| i.objective().value()).collect::<Vec<_>>(), b.iter().map(|i| i.get_objective().map(|o| o.value())).collect::<Vec<_>>());
                    panic!("sequential and parallel evaluation differ");
                }
                cases += 1;
            }
        }
    }
    // ---- whole runs of the shipped templates
    let sp = whole_run_native::Sphere { returned: std::sync::Mutex::new(Vec::new()), alt: false };
    let sp_alt = whole_run_native::Sphere { returned: std::sync::Mutex::new(Vec::new()), alt: true };
    for (name, c) in whole_run_native::real_templates(8) { cases += check_template(name, c, &sp, true, Some(&sp_alt)); }
    // ... and in the other order: first use on the 5-dimensional wide instance, then the 3-dimensional narrow one
    for (name, c) in whole_run_native::real_templates(8) { cases += check_template(name, c, &sp_alt, true, Some(&sp)); }
    let pp = whole_run_native::PermCost { returned: std::sync::Mutex::new(Vec::new()) };
    // (discrete search spaces: two seeds may legitimately end in the same optimum, so no difference is demanded)
    for (name, c) in whole_run_native::perm_templates(8) { cases += check_template(name, c, &pp, false, None); }
    let bp = whole_run_native::OneMax { returned: std::sync::Mutex::new(Vec::new()) };
    cases += check_template("binary_ga", whole_run_native::binary_template(8), &bp, false, None);
    println!("c08_native_determinism: {} runs / generator cases compared", cases);
}

/// `experiments::par_experiment` (the batch runner): "a generator supplied by the user is never replaced" holds for the setup
/// closure handed to it as well, and without one each run is seeded with its run number (as documented).
// @native-harness
pub fn c08_native_experiment_runner() {
    use crate::{experiments::par_experiment, problems::KnownOptimumProblem, Problem, SingleObjective};
    use std::sync::{Arc, Mutex};
    pub struct Exp;
    impl Problem for Exp { type Encoding = u8; type Objective = SingleObjective; fn name(&self) -> &str { "Exp" } }
    impl KnownOptimumProblem for Exp { fn known_optimum(&self) -> SingleObjective { SingleObjective::try_from(0.0).unwrap() } }
    let mut cases = 0u64;
    for user_seed in [None, Some(777u64), Some(0)] {
        let seen: Arc<Mutex<Vec<(u64, u64)>>> = Arc::new(Mutex::new(Vec::new()));
        let sink = seen.clone();
        let config = Configuration::<Exp>::builder()
            .debug(move |_, state| { let mut rng = state.random_mut(); let seed = rng.config().seed; let first = rng.next_u64(); sink.lock().unwrap().push((seed, first)); })
            .build();
        let folder = std::env::temp_dir().join(format!("verif_c08_experiment_{}_{}", std::process::id(), cases));
        let runs = 4u64;
        par_experiment(&config, |state: &mut State<Exp>| { if let Some(s) = user_seed { state.insert(Random::new(s)); } Ok(()) }, &[Exp], runs, &folder, false).expect("the experiment runner must not fail");
        let _ = std::fs::remove_dir_all(&folder);
        let mut got: Vec<(u64, u64)> = seen.lock().unwrap().clone();
        got.sort();
        let want: Vec<(u64, u64)> = match user_seed {
            Some(s) => (0..runs).map(|_| (s, Random::new(s).next_u64())).collect(),
            None => (0..runs).map(|r| (r, Random::new(r).next_u64())).collect(),
        };
        if got != want {
            eprintln!("COUNTEREXAMPLE par_experiment with {} over {runs} runs: the runs saw the generators (seed, first draw) {got:?}, expected {want:?}",
                      match user_seed { Some(s) => format!("a setup closure that inserts Random::new({s})"), None => "a setup closure that inserts no generator".to_string() });
            panic!("a generator supplied by the user was replaced (or the default seeding changed)");
        }
        cases += 1;
    }
    println!("c08_native_experiment_runner: {} experiment configurations checked", cases);
}
