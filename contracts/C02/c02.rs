//! C02 — dynamic borrows on the real registry (real `RefCell`, association-list map under Kani):
//! many readers xor one writer per type; conflicts are errors, never granted; guards for other types or for the same
//! type in another scope do not interfere; dropping a guard frees the state; a write through the exclusive guard is
//! what later readers see; the multi-borrow rejects repeated / missing types and otherwise yields distinct objects.
use better_any::{Tid, TidAble};
use derive_more::{Deref, DerefMut};

use super::*;
use crate::{state::registry::MultiStateTuple, CustomState, StateError, StateRegistry};

#[derive(Tid, Deref, DerefMut)]
pub struct A(pub u32);
impl CustomState<'_> for A {}
#[derive(Tid, Deref, DerefMut)]
pub struct B(pub u32);
impl CustomState<'_> for B {}
#[derive(Tid, Deref, DerefMut)]
pub struct C(pub u32);
impl CustomState<'_> for C {}

#[derive(PartialEq, Clone, Copy)]
enum Outcome { Granted, ConflictImm, ConflictMut, NotFound, Other }
fn classify<T>(r: Result<T, StateError>) -> (Outcome, Option<T>) {
    match r {
        Ok(t) => (Outcome::Granted, Some(t)),
        Err(e) => {
            let o = match &e {
                StateError::BorrowConflictImm(..) => Outcome::ConflictImm,
                StateError::BorrowConflictMut(..) => Outcome::ConflictMut,
                StateError::NotFound(..) => Outcome::NotFound,
                _ => Outcome::Other,
            };
            std::mem::forget(e);
            (o, None)
        }
    }
}

/// registry with A and B in the root scope (symbolic payloads)
fn reg_ab() -> (StateRegistry<'static>, u32, u32) {
    let (a, b): (u32, u32) = (sym(), sym());
    let mut r = StateRegistry::new();
    r.insert(A(a));
    r.insert(B(b));
    (r, a, b)
}

/// shared guards: any number of readers; a writer is refused while a reader is alive and granted after it is dropped
/// @verif anchor=StateRegistry::try_borrow bound="one scope {A,B}; up to 2 shared guards on A"
#[cfg_attr(kani, kani::proof)] #[cfg_attr(kani, kani::unwind(5))]
pub fn c02_readers_then_writer() {
    let (r, a, _b) = reg_ab();
    {
        let (o1, g1) = classify(r.try_borrow::<A>());
        let (o2, g2) = classify(r.try_borrow::<A>());
        assert!(o1 == Outcome::Granted && o2 == Outcome::Granted, "several shared guards must be granted");
        assert!(g1.as_ref().unwrap().0 == a && g2.as_ref().unwrap().0 == a);
        let (ow, gw) = classify(r.try_borrow_mut::<A>());
        assert!(ow == Outcome::ConflictMut && gw.is_none(), "an exclusive guard must be refused while shared guards are alive");
        // a guard on another type does not interfere
        let (ob, gb) = classify(r.try_borrow_mut::<B>());
        assert!(ob == Outcome::Granted, "guards for different types must not interfere");
        drop(gb);
        drop(g1);
        let (ow2, _) = classify(r.try_borrow_mut::<A>());
        assert!(ow2 == Outcome::ConflictMut, "one shared guard is still alive");
        drop(g2);
        let (ow3, gw3) = classify(r.try_borrow_mut::<A>());
        assert!(ow3 == Outcome::Granted, "dropping the guards must make the state available again");
        drop(gw3);
    }
    std::mem::forget(r);
}

/// exclusive guard: every other request on that type is refused; the write is what later readers see
/// @verif anchor=StateRegistry::try_borrow_mut bound="one scope {A,B}; one exclusive guard on A"
#[cfg_attr(kani, kani::proof)] #[cfg_attr(kani, kani::unwind(5))]
pub fn c02_writer_excludes_all() {
    let (r, a, b) = reg_ab();
    let x: u32 = sym();
    {
        let (o1, g1) = classify(r.try_borrow_mut::<A>());
        assert!(o1 == Outcome::Granted);
        let mut g1 = g1.unwrap();
        assert!(g1.0 == a);
        let (o2, _) = classify(r.try_borrow::<A>());
        assert!(o2 == Outcome::ConflictImm, "a shared guard must be refused while the exclusive guard is alive");
        let (o3, _) = classify(r.try_borrow_mut::<A>());
        assert!(o3 == Outcome::ConflictMut, "a second exclusive guard must be refused");
        let (o4, _) = classify(r.try_get_value::<A>());
        assert!(o4 == Outcome::ConflictImm, "value reads go through the same flag");
        assert!(r.set_value::<A>(x).is_none(), "set_value must not bypass the exclusive guard");
        let (o5, g5) = classify(r.try_borrow::<B>());
        assert!(o5 == Outcome::Granted && g5.unwrap().0 == b, "guards for different types must not interfere");
        g1.0 = x;
        drop(g1);
        let (o6, g6) = classify(r.try_borrow::<A>());
        assert!(o6 == Outcome::Granted && g6.unwrap().0 == x, "what was written through the exclusive guard is what later readers see");
    }
    std::mem::forget(r);
}

/// the same type in different scopes: guards do not interfere (the inner one shadows)
/// @verif anchor=StateRegistry::try_borrow_mut bound="two scopes, A in both"
#[cfg_attr(kani, kani::proof)] #[cfg_attr(kani, kani::unwind(5))]
pub fn c02_scopes_do_not_interfere() {
    let (a0, a1): (u32, u32) = (sym(), sym());
    let mut r = StateRegistry::new();
    r.insert(A(a0));
    let mut r = r.into_child();
    r.insert(A(a1));
    {
        let (o1, g1) = classify(r.try_borrow_mut::<A>());
        assert!(o1 == Outcome::Granted && g1.as_ref().unwrap().0 == a1, "the innermost A is the one borrowed");
        // while the innermost A is held exclusively, a shared request through the SAME registry is a conflict: it must neither
        // be granted against the shadowed A of the parent scope nor be reported as "not found"
        let (oc, gc) = classify(r.try_borrow::<A>());
        assert!(oc == Outcome::ConflictImm && gc.is_none(), "a shared request for a type held exclusively in the innermost scope must be refused with a conflict");
        assert!(classify(r.try_get_value::<A>()).0 == Outcome::ConflictImm, "value reads go through the same flag");
        let (o2, g2) = classify(r.parent().unwrap().try_borrow_mut::<A>());
        assert!(o2 == Outcome::Granted && g2.as_ref().unwrap().0 == a0, "the same type in another scope must not interfere");
        drop(g1);
        drop(g2);
    }
    std::mem::forget(r);
}

/// a type that lives only in a PARENT scope, requested through the child: the same rules apply and a refused request is an
/// error value, never a panic (the non-panicking accessors must stay non-panicking on the recursive path)
/// @verif anchor=StateRegistry::try_borrow_mut bound="two scopes: A in the root only, B in the child; guards taken through the child"
#[cfg_attr(kani, kani::proof)] #[cfg_attr(kani, kani::unwind(5))]
pub fn c02_conflict_through_parent_scope() {
    let (a0, b1, x): (u32, u32, u32) = (sym(), sym(), sym());
    let mut r = StateRegistry::new();
    r.insert(A(a0));
    let mut r = r.into_child();
    r.insert(B(b1));
    {
        let (o1, g1) = classify(r.try_borrow::<A>());
        assert!(o1 == Outcome::Granted && g1.as_ref().unwrap().0 == a0, "a type in a parent scope must be readable through the child");
        let (o2, g2) = classify(r.try_borrow_mut::<A>());
        assert!(o2 == Outcome::ConflictMut && g2.is_none(), "an exclusive guard must be refused (with an error) while a shared guard is alive");
        assert!(r.set_value::<A>(x).is_none(), "set_value must be refused (None) while a shared guard is alive");
        let (o3, _) = classify(r.try_borrow_value_mut::<A>());
        assert!(o3 == Outcome::ConflictMut, "value writes go through the same flag");
        drop(g1);
        let (o4, g4) = classify(r.try_borrow_mut::<A>());
        assert!(o4 == Outcome::Granted, "dropping the guard must make the state available again");
        let mut g4 = g4.unwrap();
        let (o5, _) = classify(r.try_borrow::<A>());
        assert!(o5 == Outcome::ConflictImm, "a shared guard must be refused while the exclusive guard is alive");
        let (o6, _) = classify(r.try_borrow_mut::<A>());
        assert!(o6 == Outcome::ConflictMut, "a second exclusive guard must be refused");
        g4.0 = x;
        drop(g4);
        let (o7, g7) = classify(r.parent().unwrap().try_borrow::<A>());
        assert!(o7 == Outcome::Granted && g7.unwrap().0 == x, "the write through the child is what a reader of the parent scope sees");
        // a type that lives only in the CHILD scope, held exclusively: a shared request is a conflict, not "not found"
        {
            let (ob, gb) = classify(r.try_borrow_mut::<B>());
            assert!(ob == Outcome::Granted && gb.as_ref().unwrap().0 == b1);
            assert!(classify(r.try_borrow::<B>()).0 == Outcome::ConflictImm, "a conflict in the innermost scope must be reported as a conflict");
            drop(gb);
        }
        // absent everywhere: an error, also on the recursive path
        assert!(classify(r.try_borrow_mut::<C>()).0 == Outcome::NotFound);
        assert!(classify(r.try_borrow::<C>()).0 == Outcome::NotFound);
        assert!(r.set_value::<C>(1).is_none());
    }
    std::mem::forget(r);
}

/// an absent type is an error (never invented), for both kinds of guard
/// @verif anchor=StateRegistry::try_borrow bound="one scope {A,B}; request for C"
#[cfg_attr(kani, kani::proof)] #[cfg_attr(kani, kani::unwind(5))]
pub fn c02_absent_is_not_found() {
    let (r, _, _) = reg_ab();
    {
        assert!(classify(r.try_borrow::<C>()).0 == Outcome::NotFound);
        assert!(classify(r.try_borrow_mut::<C>()).0 == Outcome::NotFound);
    }
    std::mem::forget(r);
}

// ---- distinct(): true iff the type ids are pairwise distinct (one harness per tuple instantiation: complete per instantiation)
/// @verif anchor=MultiStateTuple::distinct
#[cfg_attr(kani, kani::proof)] #[cfg_attr(kani, kani::unwind(10))]
pub fn c02_distinct_arity2_3() {
    assert!(<(A, B) as MultiStateTuple>::distinct());
    assert!(!<(A, A) as MultiStateTuple>::distinct());
    assert!(<(A, B, C) as MultiStateTuple>::distinct());
    assert!(!<(A, B, A) as MultiStateTuple>::distinct());
    assert!(!<(A, B, B) as MultiStateTuple>::distinct());
    assert!(!<(A, A, B) as MultiStateTuple>::distinct());
}
/// @verif anchor=MultiStateTuple::distinct
#[cfg_attr(kani, kani::proof)] #[cfg_attr(kani, kani::unwind(10))]
pub fn c02_distinct_arity4_repeat_positions() {
    // a repeat at every pair of positions of a 4-tuple
    assert!(!<(A, A, B, C) as MultiStateTuple>::distinct());
    assert!(!<(A, B, A, C) as MultiStateTuple>::distinct());
    assert!(!<(A, B, C, A) as MultiStateTuple>::distinct());
    assert!(!<(B, A, A, C) as MultiStateTuple>::distinct());
    assert!(!<(B, A, C, A) as MultiStateTuple>::distinct());
    assert!(!<(B, C, A, A) as MultiStateTuple>::distinct());
}

/// multi-borrow: repeated type => MultipleBorrowConflict; missing type => NotFound; otherwise distinct objects whose
/// writes land in the right states (the `unsafe` block runs under CBMC's pointer checks)
/// @verif anchor=MultiStateTuple::try_get_mut bound="one scope {A,B}; tuples (A,B), (A,A), (A,C)"
#[cfg_attr(kani, kani::proof)] #[cfg_attr(kani, kani::unwind(10))]
pub fn c02_multi_borrow() {
    let (mut r, a, b) = reg_ab();
    let (x, y): (u32, u32) = (sym(), sym());
    match r.try_get_multiple_mut::<(A, B)>() {
        Ok((ra, rb)) => {
            assert!(ra.0 == a && rb.0 == b, "multi-borrow returned the wrong states");
            assert!(!std::ptr::eq(ra as *const A as *const u8, rb as *const B as *const u8), "references must be to distinct objects");
            ra.0 = x;
            rb.0 = y;
        }
        Err(e) => { std::mem::forget(e); assert!(false, "multi-borrow of two present, distinct types must succeed"); }
    }
    assert!(classify(r.try_get_value::<A>()).1 == Some(x) && classify(r.try_get_value::<B>()).1 == Some(y));
    match r.try_get_multiple_mut::<(A, A)>() {
        Ok(_) => assert!(false, "a repeated type must be refused"),
        Err(e) => { assert!(matches!(e, StateError::MultipleBorrowConflict(..))); std::mem::forget(e); }
    }
    match r.try_get_multiple_mut::<(A, C)>() {
        Ok(_) => assert!(false, "a missing type must be refused"),
        Err(e) => { assert!(matches!(e, StateError::NotFound(..))); std::mem::forget(e); }
    }
    std::mem::forget(r);
}
