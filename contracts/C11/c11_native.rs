//! C11 — BOUNDED STAND-IN (not a proof) for the sampling-based selection operators (rejection-sampling loops over a
//! symbolic RNG are unbounded for Kani; State/iterator chains keep Verus out): executed as components on prepared states:
//! source population untouched, exactly one population pushed, only exact copies of source members, the requested number,
//! documented unusable inputs are errors (not panics), a tournament over the whole population returns the best,
//! DE selections emit 2y+1 individuals per member.  Native runs on the real code over populations, counts and seeds.
use super::*;
use crate::{
    components::selection::{
        de::{DEBest, DECurrentToBest, DERand},
        CloneSingle, ExponentialRank, FullyRandom, LinearRank, RandomWithoutRepetition, RouletteWheel, StochasticUniversalSampling, Tournament,
    },
    state::{common::Populations, random::Random},
    Component, Individual, SingleObjective, State,
};

type P = ScalarProblem;
fn ind(tag: u8, f: f64) -> Individual<P> { Individual::new(tag, SingleObjective::try_from(f).unwrap()) }

/// runs `c` on a state whose stack is [guard, source]; returns Ok(new population) / Err
fn run(c: &dyn Component<P>, source: &[Individual<P>], seed: u64) -> Result<Vec<Individual<P>>, String> {
    let mut state: State<P> = State::new();
    state.insert(Random::new(seed));
    state.insert(Populations::<P>::new());
    state.populations_mut().push(vec![ind(250, 9.0)]);
    state.populations_mut().push(source.to_vec());
    match c.execute(&ScalarProblem, &mut state) {
        Err(e) => Err(format!("{e}")),
        Ok(()) => {
            let pops = state.populations();
            if pops.len() != 3 { return Err(format!("PANIC-LIKE: stack height {} instead of 3", pops.len())); }
            if pops.peek(1) != source { panic!("selection changed the source population"); }
            if pops.peek(2).len() != 1 || *pops.peek(2)[0].solution() != 250 { panic!("selection disturbed the population below the source"); }
            let sel = pops.current().to_vec();
            for s in &sel { if !source.iter().any(|x| x == s) { panic!("selection returned an individual that is not an exact copy of a source member"); } }
            Ok(sel)
        }
    }
}

// @native-harness
pub fn c11_native_selection_operators() {
    let objective_sets: [&[f64]; 6] = [&[], &[3.0], &[1.0, 1.0], &[2.0, -1.0, 0.0], &[5.0, 5.0, 1.0, 7.0], &[0.5, 4.0, 4.0, -2.0, 9.0]];
    let mut cases = 0u64;
    for objs in objective_sets {
        let source: Vec<Individual<P>> = objs.iter().enumerate().map(|(i, f)| ind(i as u8, *f)).collect();
        let n = source.len();
        let best = objs.iter().cloned().fold(f64::INFINITY, f64::min);
        for seed in 0..6u64 {
            for k in 0..=(n as u32 + 2) {
                // FullyRandom: exactly k (an empty source with k > 0 is not a documented error: skip)
                if n > 0 || k == 0 {
                    let r = run(FullyRandom::new::<P>(k).as_ref(), &source, seed).expect("FullyRandom must not fail");
                    if r.len() != k as usize { panic!("FullyRandom: wrong number selected"); }
                }
                // RandomWithoutRepetition: k distinct members, or an error iff too few
                match run(RandomWithoutRepetition::new::<P>(k).as_ref(), &source, seed) {
                    Ok(r) => {
                        if k as usize > n { panic!("RandomWithoutRepetition: too few individuals must be an error"); }
                        let mut tags: Vec<u8> = r.iter().map(|i| *i.solution()).collect();
                        tags.sort(); tags.dedup();
                        if r.len() != k as usize || tags.len() != k as usize { panic!("RandomWithoutRepetition: not k distinct members"); }
                    }
                    Err(_) => if k as usize <= n { eprintln!("COUNTEREXAMPLE n={n} k={k}"); panic!("RandomWithoutRepetition erred on a sufficient population") },
                }
                // CloneSingle: exactly one individual required
                match run(CloneSingle::new::<P>(k).as_ref(), &source, seed) {
                    Ok(r) => { if n != 1 || r.len() != k as usize { panic!("CloneSingle: must err unless exactly one individual, and return k copies"); } }
                    Err(_) => if n == 1 { panic!("CloneSingle erred on a single individual") },
                }
                if n > 0 {
                    // fitness-based operators on finite objective values: exactly k selected
                    for (name, c) in [("RouletteWheel", RouletteWheel::new::<P>(k, 0.1)), ("SUS", StochasticUniversalSampling::new::<P>(k, 0.1)),
                                      ("LinearRank", LinearRank::new::<P>(k)), ("ExponentialRank", ExponentialRank::new::<P>(k, 0.5).unwrap())] {
                        match run(c.as_ref(), &source, seed) {
                            Ok(r) => if r.len() != k as usize { eprintln!("COUNTEREXAMPLE {name} objs={objs:?} k={k} seed={seed}: {} selected", r.len()); panic!("fitness-based selection: wrong number selected") },
                            Err(e) => { eprintln!("COUNTEREXAMPLE {name} objs={objs:?} k={k} seed={seed}: {e}"); panic!("fitness-based selection erred on a valid finite population") }
                        }
                    }
                    // a tournament over the whole population returns the best individual
                    let r = run(Tournament::new::<P>(k, n as u32).as_ref(), &source, seed).expect("tournament over the whole population must not fail");
                    if r.len() != k as usize || r.iter().any(|i| i.objective().value() != best) { panic!("a tournament over the whole population must return the best individual"); }
                    if run(Tournament::new::<P>(1, n as u32 + 1).as_ref(), &source, seed).is_ok() { panic!("tournament larger than the population must be an error"); }
                }
                cases += 1;
            }
            // DE selections: 2y+1 individuals per member (when the population is large enough)
            for y in 1..=2u32 {
                let per = (2 * y + 1) as usize;
                if n >= per {
                    for (name, c) in [("DERand", DERand::new::<P>(y).unwrap()), ("DEBest", DEBest::new::<P>(y).unwrap()), ("DECurrentToBest", DECurrentToBest::new::<P>(y).unwrap())] {
                        let r = run(c.as_ref(), &source, seed).expect("DE selection must not fail on a large enough population");
                        if r.len() != n * per { eprintln!("COUNTEREXAMPLE {name} n={n} y={y}: {} selected", r.len()); panic!("DE selection must emit 2y+1 individuals per member"); }
                    }
                }
            }
        }
    }
    // "operators that use fitness never favour a worse individual over a better one": with distinct objectives 1 < 2 < 3 < 4
    // every weight-based operator gives the best individual a weight several times the worst one's, so over 4000 draws
    // (fixed seeds: deterministic) the best must be drawn more often than the worst
    let ladder: Vec<Individual<P>> = (0..4).map(|i| ind(i as u8, (i + 1) as f64)).collect();
    for seed in 0..3u64 {
        for (name, c) in [("RouletteWheel", RouletteWheel::new::<P>(4000, 0.1)), ("SUS", StochasticUniversalSampling::new::<P>(4000, 0.1)),
                          ("LinearRank", LinearRank::new::<P>(4000)), ("ExponentialRank", ExponentialRank::new::<P>(4000, 0.5).unwrap())] {
            let r = run(c.as_ref(), &ladder, seed).expect("fitness-based selection must not fail");
            let best = r.iter().filter(|i| *i.solution() == 0).count();
            let worst = r.iter().filter(|i| *i.solution() == 3).count();
            if best <= worst {
                eprintln!("COUNTEREXAMPLE {name} seed={seed}: best selected {best}x, worst {worst}x out of 4000");
                panic!("a fitness-based operator favours a worse individual over a better one");
            }
        }
    }
    // infinite objective values are a documented error for the proportional operators
    let inf = vec![ind(0, 1.0), ind(1, f64::INFINITY)];
    if run(RouletteWheel::new::<P>(2, 0.1).as_ref(), &inf, 0).is_ok() { panic!("RouletteWheel must report infinite objective values as an error"); }
    if run(StochasticUniversalSampling::new::<P>(2, 0.1).as_ref(), &inf, 0).is_ok() { panic!("SUS must report infinite objective values as an error"); }
    // DeterministicFitnessProportional (IWO): every member is copied between min and max times, a better objective never gets
    // fewer copies than a worse one, the best gets max and the worst min copies; infinite values are an error, not a panic
    {
        use crate::components::selection::iwo::DeterministicFitnessProportional;
        for objs in objective_sets.iter().filter(|o| !o.is_empty()) {
            let source: Vec<Individual<P>> = objs.iter().enumerate().map(|(t, f)| ind(t as u8, *f)).collect();
            for (lo, hi) in [(0u32, 0u32), (0, 3), (1, 1), (1, 4), (2, 5)] {
                let r = run(DeterministicFitnessProportional::new::<P>(lo, hi).as_ref(), &source, 0).expect("DeterministicFitnessProportional must not fail on finite objectives");
                let copies: Vec<usize> = source.iter().map(|x| r.iter().filter(|y| y.solution() == x.solution()).count()).collect();
                let fail = |why: &str| -> ! { eprintln!("COUNTEREXAMPLE DeterministicFitnessProportional min={lo} max={hi} objectives={objs:?}: {why}; copies per member {copies:?}"); panic!("IWO selection violates C11") };
                if copies.iter().any(|c| *c < lo as usize || *c > hi as usize) { fail("a member was copied fewer than min or more than max times") }
                let (mn, mx) = (objs.iter().cloned().fold(f64::INFINITY, f64::min), objs.iter().cloned().fold(f64::NEG_INFINITY, f64::max));
                for a in 0..objs.len() { for b in 0..objs.len() {
                    if objs[a] < objs[b] && copies[a] < copies[b] { fail("a better objective got fewer copies than a worse one") }
                }}
                if mn < mx { for a in 0..objs.len() {
                    if objs[a] == mn && copies[a] != hi as usize { fail("the best member must get max copies") }
                    if objs[a] == mx && copies[a] != lo as usize { fail("the worst member must get min copies") }
                }}
                cases += 1;
            }
        }
        // the best member gets EXACTLY max copies and the worst exactly min, whatever the objective range (rounding of the bonus)
        for range in 1..=200u32 {
            for k in 1..=6u32 {
                let source = vec![ind(0, 0.0), ind(1, range as f64)];
                let r = run(DeterministicFitnessProportional::new::<P>(1, 1 + k).as_ref(), &source, 0).expect("DeterministicFitnessProportional must not fail on finite objectives");
                let (best, worst) = (r.iter().filter(|y| *y.solution() == 0).count(), r.iter().filter(|y| *y.solution() == 1).count());
                if best != (1 + k) as usize || worst != 1 {
                    eprintln!("COUNTEREXAMPLE DeterministicFitnessProportional min=1 max={} objectives=[0, {range}]: best copied {best}x, worst {worst}x", 1 + k);
                    panic!("IWO selection violates C11");
                }
                cases += 1;
            }
        }
        if run(DeterministicFitnessProportional::new::<P>(1, 3).as_ref(), &inf, 0).is_ok() { panic!("DeterministicFitnessProportional must report infinite objective values as an error"); }
        if run(DeterministicFitnessProportional::new::<P>(1, 3).as_ref(), &[], 0).is_ok() { panic!("DeterministicFitnessProportional must report an empty population as an error"); }
    }
    println!("c11_native_selection_operators: {} (population, count, seed) cases checked", cases);
}

// BOUNDED STAND-IN (not a proof) for the rank / weight kernels at sizes CBMC does not finish (reverse_rank: sort + group_by over
// symbolic floats, 50 min time-out at size 2 under load; proportional_weights at size 3): exhaustive native enumeration over a
// value grid.  reverse_rank: rank 1 = lowest objective, ties equal, ranks dense; a better objective <=> a smaller rank.
// proportional_weights: refused iff empty or infinite; else non-negative, at least the offset, and a better objective never gets
// a smaller weight.  (Size 2 of proportional_weights stays a Kani harness over all values.)
// @native-harness
pub fn c11_native_rank_and_weights() {
    use crate::components::selection::functional::{proportional_weights, reverse_rank};
    let grid = [-3.0, -1.0, 0.0, 0.5, 0.5000000000000001, 2.0, 1.0e6, f64::INFINITY];
    let mut cases = 0u64;
    for n in 0..=4usize {
        let total = grid.len().pow(n as u32);
        for c in 0..total {
            let mut k = c;
            let objs: Vec<f64> = (0..n).map(|_| { let v = grid[k % grid.len()]; k /= grid.len(); v }).collect();
            let pop: Vec<Individual<P>> = objs.iter().enumerate().map(|(t, f)| ind(t as u8, *f)).collect();
            let fail = |why: String| -> ! { eprintln!("COUNTEREXAMPLE objectives={objs:?}: {why}"); panic!("rank / weight kernel violates C11") };
            let r = reverse_rank(&pop);
            if r.len() != n { fail(format!("{} ranks for {n} individuals", r.len())) }
            let distinct = { let mut d = objs.clone(); d.sort_by(|a, b| a.total_cmp(b)); d.dedup(); d };
            for i in 0..n {
                let want = 1 + distinct.iter().position(|v| *v == objs[i]).unwrap();
                if r[i] != want { fail(format!("individual {i} has rank {}, expected {want} (rank 1 = lowest objective, ties equal, dense)", r[i])) }
            }
            let any_inf = objs.iter().any(|v| !v.is_finite());
            for (offset, normalize) in [(0.0, false), (0.5, false), (0.0, true)] {
                match proportional_weights(&pop, offset, normalize) {
                    None => if n > 0 && !any_inf { fail(format!("weights refused (offset {offset}, normalize {normalize}) although the population is non-empty and finite")) },
                    Some(w) => {
                        if n == 0 || any_inf { fail("weights must be refused for an empty population or infinite objective values".into()) }
                        if w.len() != n { fail("one weight per individual".into()) }
                        for i in 0..n {
                            if !(w[i] >= 0.0) { fail(format!("weight {} of individual {i} is negative or NaN (offset {offset}, normalize {normalize})", w[i])) }
                            if !normalize && !(w[i] >= offset || w[i] == 1.0) { fail(format!("weight {} of individual {i} is below the offset {offset}", w[i])) }
                            for j in 0..n { if objs[i] <= objs[j] && w[i] < w[j] { fail(format!("objective {} gets weight {} but the worse objective {} gets {} (offset {offset}, normalize {normalize})", objs[i], w[i], objs[j], w[j])) } }
                        }
                    }
                }
            }
            cases += 1;
        }
    }
    println!("c11_native_rank_and_weights: {} populations checked", cases);
}
