//! C11 — weight / rank kernels (selection/functional.rs): Hoare triples at population sizes <= 3 over all objective
//! values (ties, negatives, +inf).  These are the contracts the Verus glue units assume for `reverse_rank`.
use super::*;
use crate::{
    components::selection::{functional::{objective_bounds, proportional_weights, reverse_rank}, All, None as SelectNone, Selection},
    state::random::Random,
    Individual,
};

type I = Individual<ScalarProblem>;

fn bounds(n: usize) {
    let pop = sym_population(n);
    match objective_bounds(&pop) {
        None => assert!(n == 0, "objective_bounds: None iff empty"),
        Some((max, min)) => {
            assert!(n > 0);
            let (mut is_max, mut is_min) = (false, false);
            for x in pop.iter() {
                let v = x.objective().value();
                assert!(v <= max && v >= min, "objective_bounds are not bounds");
                is_max = is_max || v == max;
                is_min = is_min || v == min;
            }
            assert!(is_max && is_min, "objective_bounds are not attained");
        }
    }
}
/// @verif anchor=objective_bounds bound="population size 0"
#[cfg_attr(kani, kani::proof)] #[cfg_attr(kani, kani::unwind(6))]
pub fn c11_bounds_0() { bounds(0) }
/// @verif anchor=objective_bounds bound="population size 3; all objective values"
#[cfg_attr(kani, kani::proof)] #[cfg_attr(kani, kani::unwind(6))]
pub fn c11_bounds_3() { bounds(3) }

/// reverse_rank: rank 1 = lowest objective, ties equal, ranks dense in 1..=n; better objective <=> smaller rank
fn rank(n: usize) {
    let pop = sym_population(n);
    let r = reverse_rank(&pop);
    assert!(r.len() == n, "one rank per individual");
    for i in 0..n {
        assert!(r[i] >= 1 && r[i] <= n, "ranks lie in 1..=n");
        for j in 0..n {
            assert!((pop[i].objective() < pop[j].objective()) == (r[i] < r[j]), "a better objective must get a smaller rank (ties equal)");
        }
    }
    if n > 0 {
        let mut has_one = false;
        for i in 0..n { has_one = has_one || r[i] == 1; }
        assert!(has_one, "the lowest objective has rank 1");
    }
}
// NOT registered (no @verif tag): reverse_rank sorts and groups symbolic floats through itertools; CBMC hit the 50-minute limit at
// sizes 2 and 3 in the thorough run.  The kernel contract is checked by the bounded native enumeration c11_native_rank_and_weights.
#[allow(dead_code)]
pub fn c11_reverse_rank_2_unregistered() { rank(2) }
#[allow(dead_code)]
pub fn c11_reverse_rank_3_unregistered() { rank(3) }

/// proportional weights: None iff empty or infinite; otherwise w_i >= offset and a better objective never gets a
/// smaller weight
fn weights(n: usize, normalize: bool, offset: f64) {
    // the offset is concrete per call (0 and a positive value): a third symbolic float makes the harness 5x slower
    let pop = sym_population(n);
    for x in pop.iter() { assume(x.objective().value().abs() <= 1.0e6 || x.objective().value() == f64::INFINITY); }
    let mut any_inf = false;
    for x in pop.iter() { any_inf = any_inf || !x.objective().is_finite(); }
    match proportional_weights(&pop, offset, normalize) {
        None => assert!(n == 0 || any_inf, "weights refused although the population is non-empty and finite"),
        Some(w) => {
            assert!(n > 0 && !any_inf, "weights must be refused for empty or infinite populations");
            assert!(w.len() == n);
            for i in 0..n {
                assert!(w[i] >= 0.0, "weights must be non-negative");
                if !normalize { assert!(w[i] >= offset || w[i] == 1.0, "every weight is at least the offset"); }
                for j in 0..n {
                    if pop[i].objective() <= pop[j].objective() {
                        assert!(w[i] >= w[j], "a better objective must never get a smaller selection weight");
                    }
                }
            }
        }
    }
}
/// @verif anchor=proportional_weights tier=thorough bound="population size 2; |objective| <= 1e6 or +inf; offset 0; not normalised"
#[cfg_attr(kani, kani::proof)] #[cfg_attr(kani, kani::unwind(6))]
pub fn c11_weights_2() { weights(2, false, 0.0) }
/// @verif anchor=proportional_weights tier=thorough bound="population size 2; offset 0.5; not normalised"
#[cfg_attr(kani, kani::proof)] #[cfg_attr(kani, kani::unwind(6))]
pub fn c11_weights_2_offset() { weights(2, false, 0.5) }
/// @verif anchor=proportional_weights tier=thorough bound="population size 2; normalised"
#[cfg_attr(kani, kani::proof)] #[cfg_attr(kani, kani::unwind(6))]
pub fn c11_weights_2_normalized() { weights(2, true, 0.0) }
// NOT registered: size 3 hit the 50-minute limit in the thorough run; sizes 0..4 over a value grid are enumerated natively.
#[allow(dead_code)]
pub fn c11_weights_3_unregistered() { weights(3, false, 0.0) }

/// All / None: everything / nothing, as references into the source population
/// @verif anchor=All::select bound="population size 2"
#[cfg_attr(kani, kani::proof)] #[cfg_attr(kani, kani::unwind(6))]
pub fn c11_all_none() {
    let pop = sym_population(2);
    let mut rng = Random::with_rng::<SymRng>(0);
    match <All as Selection<ScalarProblem>>::select(&All, &pop, &mut rng) {
        Ok(s) => { assert!(s.len() == 2 && std::ptr::eq(s[0], &pop[0]) && std::ptr::eq(s[1], &pop[1]), "All must select every member, in order"); }
        Err(e) => { std::mem::forget(e); assert!(false); }
    }
    match <SelectNone as Selection<ScalarProblem>>::select(&SelectNone, &pop, &mut rng) {
        Ok(s) => assert!(s.is_empty(), "None must select nothing"),
        Err(e) => { std::mem::forget(e); assert!(false); }
    }
}

/// `into_single_ref`: Ok exactly for one individual, and then a reference to that individual (the helper contract the Verus
/// unit C11/verus/simple_selections assumes for CloneSingle)
/// @verif anchor=IntoSingleRef::into_single_ref bound="population sizes 0, 1, 2"
#[cfg_attr(kani, kani::proof)] #[cfg_attr(kani, kani::unwind(6))]
pub fn c11_into_single_ref() {
    use crate::population::IntoSingleRef;
    let pop = sym_population(2);
    match pop[..0].into_single_ref() { Ok(_) => assert!(false, "an empty population has no single individual"), Err(e) => std::mem::forget(e) }
    match pop[..1].into_single_ref() { Ok(s) => assert!(std::ptr::eq(s, &pop[0]), "the single individual itself must be returned"), Err(e) => { std::mem::forget(e); assert!(false, "exactly one individual must be accepted") } }
    match pop[..2].into_single_ref() { Ok(_) => assert!(false, "two individuals are not a single one"), Err(e) => std::mem::forget(e) }
}
