//! C11 — Kani FUNCTION CONTRACTS (modular route): `objective_bounds` carries an in-place contract
//! (`#[cfg_attr(kani, kani::requires/ensures)]` inserted above the real function in the scratch copy, see
//! vlib/props.py `annotations`), proved by `proof_for_contract`; `proportional_weights` is then verified against
//! that CONTRACT ONLY (`stub_verified`), not against the body of `objective_bounds`.
use super::*;
use crate::{components::selection::functional::{objective_bounds, proportional_weights}, Individual};

/// @verif anchor=objective_bounds bound="population size 3; all objective values"
#[cfg_attr(kani, kani::proof_for_contract(objective_bounds))] #[cfg_attr(kani, kani::unwind(6))]
pub fn c11_contract_objective_bounds_3() {
    let pop = sym_population(3);
    let _ = objective_bounds(&pop);
}
/// @verif anchor=objective_bounds bound="population size 2; all objective values"
#[cfg_attr(kani, kani::proof_for_contract(objective_bounds))] #[cfg_attr(kani, kani::unwind(6))]
pub fn c11_contract_objective_bounds_2() {
    let pop = sym_population(2);
    let _ = objective_bounds(&pop);
}
/// @verif anchor=objective_bounds bound="population size 0"
#[cfg_attr(kani, kani::proof_for_contract(objective_bounds))] #[cfg_attr(kani, kani::unwind(6))]
pub fn c11_contract_objective_bounds_0() {
    let pop = sym_population(0);
    let _ = objective_bounds(&pop);
}

/// proportional_weights against the CONTRACT of objective_bounds: a better objective never gets a smaller weight
/// @verif anchor=proportional_weights bound="population size 2; |objective| <= 1e6 or +inf; offset 0; callee objective_bounds replaced by its verified contract"
#[cfg_attr(kani, kani::proof)] #[cfg_attr(kani, kani::stub_verified(objective_bounds))] #[cfg_attr(kani, kani::unwind(6))]
pub fn c11_weights_2_modular() {
    let pop = sym_population(2);
    for x in pop.iter() { assume(x.objective().value().abs() <= 1.0e6 || x.objective().value() == f64::INFINITY); }
    let offset: f64 = 0.0;
    if let Some(w) = proportional_weights(&pop, offset, false) {
        assert!(w.len() == 2);
        for i in 0..2 {
            for j in 0..2 {
                if pop[i].objective() <= pop[j].objective() {
                    assert!(w[i] >= w[j], "a better objective must never get a smaller selection weight");
                }
            }
        }
    }
}
