//! C18 — "after every inertia-weight update the weight is the configured linear interpolation between start and end weight at
//! the loop's current progress": the mapping kernel `Linear::map` (the driver that reads the progress once, maps once and stores
//! the result once through the output lens is the Verus unit `linear`).
use super::*;
use crate::{
    components::{mapping::{Linear, Mapping}, swarm::pso::{InertiaWeight, ParticleVelocitiesUpdate}},
    lens::ValueOf,
    state::{common::{Iterations, Progress}, random::Random},
};

type In = ValueOf<Progress<ValueOf<Iterations>>>;
type Out = ValueOf<InertiaWeight<ParticleVelocitiesUpdate>>;

fn linear_case(start: f64, end: f64, progress: f64) {
    let l = Linear { start, end, input_lens: In::new(), output_lens: Out::new() };
    let mut rng = Random::with_rng::<SymRng>(0);
    match <Linear<In, Out> as Mapping<ScalarProblem>>::map(&l, progress, &mut rng) {
        Ok(w) => {
            assert!(w.to_bits() == ((end - start) * progress + start).to_bits(), "the weight must be (end - start) * progress + start");
            if progress == 0.0 { assert!(w == start, "at progress 0 the weight is the start weight"); }
            if progress == 1.0 { assert!((w - end).abs() <= 1e-12, "at progress 1 the weight is the end weight (up to one rounding)"); }
            let (lo, hi) = if start <= end { (start, end) } else { (end, start) };
            assert!(w >= lo - 1e-12 && w <= hi + 1e-12, "the interpolated weight lies between start and end weight");
        }
        Err(e) => { std::mem::forget(e); assert!(false, "the interpolation must not fail"); }
    }
}
// (a harness with SYMBOLIC weights — even at concrete progress values — does not finish in 400 s: CBMC compares two float
// subtract/multiply/add chains; dropped.  The native stand-in checks the formula bit-exactly for three weight pairs.)
/// the usual weights 0.9 -> 0.4 (and the reverse) at every progress in [0, 1]
/// @verif anchor=Linear::map pre="progress in [0, 1]" bound="weights (0.9, 0.4) and (0.4, 0.9); all progress values"
#[cfg_attr(kani, kani::proof)]
pub fn c18_linear_map_progress() {
    let progress: f64 = sym();
    assume(progress >= 0.0 && progress <= 1.0);
    if sym::<bool>() { linear_case(0.9, 0.4, progress) } else { linear_case(0.4, 0.9, progress) }
}
