//! C18 — BOUNDED STAND-IN (not a proof) for the swarm mechanisms, which live in State-based `execute` bodies built from
//! `multizip` loops and f64 arithmetic (Verus rejects iterator adapters and leaves f64 uninterpreted; Kani cannot enter State):
//! "After every swarm update each velocity component lies within [-v_max, v_max] and each particle has moved by exactly its new
//! velocity; after every inertia-weight update the weight is the configured linear interpolation ... at the loop's current
//! progress, and it is that stored weight which scales the old velocity in the next update.  Every particle's personal best is
//! the best position that particle has been evaluated at and never gets worse, and the global best equals the best personal best.
//! The velocity, personal-best and particle collections always have one entry per particle."
//! (The interpolation clause has a contract part: `Linear::execute` = `mapping()` with its own lenses — Verus unit `linear` — and
//! `Linear::map` = (end - start) * value + start for all f64 — Kani harness.)  Native runs of the real PSO template with probes
//! between its components: 12 iterations x 4 seeds x 5 parameter sets (decreasing, increasing and constant weight schedules; two with c1 = c2 = 0 to observe the stored weight).
use std::sync::{Arc, Mutex};

use super::*;
use crate::{
    components::{boundary, initialization, mapping, swarm::pso::*},
    conditions::LessThanN,
    configuration::Configuration,
    heuristics::pso,
    identifier::Global,
    lens::ValueOf,
    problems::Sequential,
    state::{common, random::Random},
    Component, State,
};
use whole_run_native::sphere;
use crate::{problems::{LimitedVectorProblem, ObjectiveFunction, Problem, VectorProblem}, SingleObjective};

/// the sphere of the whole-run harness scaled by `SCALE_EXP` powers of ten (tiny objective values: improvements far below
/// f64::EPSILON in absolute terms must still count as improvements)
pub struct ScaledSphere<const SCALE_EXP: i32>;
fn scaled<const E: i32>(x: &[f64]) -> f64 { sphere(x) * 10f64.powi(E) }
impl<const E: i32> Problem for ScaledSphere<E> {
    type Encoding = Vec<f64>;
    type Objective = SingleObjective;
    fn name(&self) -> &str { "ScaledSphere" }
}
impl<const E: i32> VectorProblem for ScaledSphere<E> {
    type Element = f64;
    fn dimension(&self) -> usize { 3 }
}
impl<const E: i32> LimitedVectorProblem for ScaledSphere<E> {
    fn domain(&self) -> Vec<std::ops::Range<f64>> { vec![-5.0..5.0; 3] }
}
impl<const E: i32> ObjectiveFunction for ScaledSphere<E> {
    fn objective(&self, s: &Vec<f64>) -> SingleObjective { SingleObjective::try_from(scaled::<E>(s)).unwrap() }
}

macro_rules! fail { ($p:expr, $($t:tt)*) => {{ let m = format!($($t)*); if $p.failures.len() < 3 { $p.failures.push(m); } }} }
#[derive(Default)]
struct Probe { xs_before: Vec<Vec<f64>>, vs_before: Vec<Vec<f64>>, weight_before: f64, history_min: Vec<f64>, bests_before: Vec<f64>, failures: Vec<String>, updates: u64 }

fn positions<const E: i32>(state: &State<ScaledSphere<E>>) -> Vec<Vec<f64>> { state.populations().current().iter().map(|i| i.solution().clone()).collect() }

fn one_run<const E: i32>(seed: u64, start_w: f64, end_w: f64, c1: f64, c2: f64, v_max: f64, n: u32, particles: u32) -> (Vec<String>, u64) {
    let probe = Arc::new(Mutex::new(Probe::default()));
    let (p1, p2, p3, p4, p5) = (probe.clone(), probe.clone(), probe.clone(), probe.clone(), probe.clone());
    let particle_update = Configuration::<ScaledSphere<E>>::builder()
        .debug(move |_, state| {
            let mut p = p1.lock().unwrap();
            p.xs_before = positions(state);
            p.vs_before = state.borrow_value::<ParticleVelocities<Global>>().clone();
            p.weight_before = state.get_value::<InertiaWeight<ParticleVelocitiesUpdate>>();
        })
        .do_(ParticleVelocitiesUpdate::new(start_w, c1, c2, v_max).unwrap())
        .debug(move |_, state| {
            let mut p = p2.lock().unwrap();
            p.updates += 1;
            let xs = positions(state);
            let vs = state.borrow_value::<ParticleVelocities<Global>>().clone();
            if vs.len() != xs.len() || xs.len() != p.xs_before.len() { fail!(p, "{} velocities for {} particles", vs.len(), xs.len()); return }
            for k in 0..xs.len() {
                for i in 0..xs[k].len() {
                    if !(vs[k][i] >= -v_max && vs[k][i] <= v_max) { fail!(p, "velocity component {} of particle {k} outside [-{v_max}, {v_max}]", vs[k][i]) }
                    if xs[k][i] != p.xs_before[k][i] + vs[k][i] { fail!(p, "particle {k} coordinate {i} moved from {} to {} but its new velocity is {}", p.xs_before[k][i], xs[k][i], vs[k][i]) }
                    if c1 == 0.0 && c2 == 0.0 {
                        let want = (p.weight_before * p.vs_before[k][i]).clamp(-v_max, v_max);
                        if vs[k][i] != want { fail!(p, "with c1 = c2 = 0 the new velocity must be the stored weight {} times the old velocity {}: {} instead of {want}", p.weight_before, p.vs_before[k][i], vs[k][i]) }
                    }
                }
            }
            if state.populations().current().iter().any(|i| i.is_evaluated()) { fail!(p, "a moved particle still carries an objective value") }
        })
        .build_component();
    let inertia = Configuration::<ScaledSphere<E>>::builder()
        .do_(mapping::Linear::new(start_w, end_w, ValueOf::<common::Progress<ValueOf<common::Iterations>>>::new(), ValueOf::<InertiaWeight<ParticleVelocitiesUpdate>>::new()))
        .debug(move |_, state| {
            let mut p = p3.lock().unwrap();
            let progress = state.get_value::<common::Progress<ValueOf<common::Iterations>>>();
            let w = state.get_value::<InertiaWeight<ParticleVelocitiesUpdate>>();
            if w != (end_w - start_w) * progress + start_w { fail!(p, "inertia weight {w} is not the interpolation between {start_w} and {end_w} at progress {progress}") }
        })
        .build_component();
    let state_update = Configuration::<ScaledSphere<E>>::builder()
        .debug(move |_, state| {
            let mut p = p4.lock().unwrap();
            p.bests_before = state.borrow_value::<BestParticles<ScaledSphere<E>, Global>>().iter().map(|b| b.objective().value()).collect();
        })
        .do_(ParticleSwarmUpdate::new())
        .debug(move |_, state| {
            let mut p = p5.lock().unwrap();
            let cur: Vec<f64> = state.populations().current().iter().map(|i| i.objective().value()).collect();
            if p.history_min.is_empty() { p.history_min = p.bests_before.clone(); }
            for (h, c) in p.history_min.iter_mut().zip(&cur) { if *c < *h { *h = *c } }
            let bests = state.borrow_value::<BestParticles<ScaledSphere<E>, Global>>();
            if bests.len() != cur.len() { fail!(p, "{} personal bests for {} particles", bests.len(), cur.len()); return }
            for k in 0..cur.len() {
                let b = bests[k].objective().value();
                if b > p.bests_before[k] { fail!(p, "personal best of particle {k} got worse: {} -> {b}", p.bests_before[k]) }
                if b != p.history_min[k] { fail!(p, "personal best of particle {k} is {b} but the best value it has been evaluated at is {}", p.history_min[k]) }
                if b != scaled::<E>(bests[k].solution()) { fail!(p, "personal best of particle {k} carries {b} but f(position) = {}", scaled::<E>(bests[k].solution())) }
            }
            let g = state.borrow_value::<BestParticle<ScaledSphere<E>, Global>>();
            let best_personal = bests.iter().map(|b| b.objective().value()).fold(f64::INFINITY, f64::min);
            match g.as_ref() {
                None => fail!(p, "no global best although particles have been evaluated"),
                Some(g) => if g.objective().value() != best_personal { fail!(p, "global best {} differs from the best personal best {best_personal}", g.objective().value()) },
            }
        })
        .build_component();
    let config = Configuration::<ScaledSphere<E>>::builder()
        .do_(initialization::RandomSpread::new(particles))
        .evaluate()
        .update_best_individual()
        .do_(pso::pso::<ScaledSphere<E>, Global>(pso::Parameters {
            particle_init: ParticleSwarmInit::new(v_max).unwrap(),
            particle_update, constraints: boundary::Saturation::new(), inertia_weight_update: Some(inertia), state_update,
        }, LessThanN::iterations(n)))
        .build();
    let problem = ScaledSphere::<E>;
    let r = config.optimize_with(&problem, |state| { state.insert_evaluator(Sequential::<ScaledSphere<E>>::new()); state.insert(Random::new(seed)); Ok(()) });
    let mut p = probe.lock().unwrap();
    if let Err(e) = &r { fail!(p, "the PSO run failed: {e:#}"); }
    (p.failures.clone(), p.updates)
}

// @native-harness
pub fn c18_native_swarm() {
    let mut cases = 0u64;
    for seed in 0..4u64 {
        for tiny in [false, true] { for (sw, ew, c1, c2, vm, particles) in [(0.9, 0.4, 1.0, 1.5, 1.0, 6u32), (0.9, 0.4, 0.0, 0.0, 0.5, 4), (1.2, 0.2, 2.0, 2.0, 0.25, 1), (0.4, 0.9, 0.5, 0.5, 1.0, 3), (0.7, 0.7, 0.0, 0.0, 1.0, 2), (1.4, 0.6, 0.0, 0.0, 1.0e3, 3), (1.25, 1.25, 0.0, 0.0, 64.0, 2), (0.0, 1.5, 0.0, 0.0, 1.0, 2)] {
            let (failures, updates) = if tiny { one_run::<-18>(seed, sw, ew, c1, c2, vm, 12, particles) } else { one_run::<0>(seed, sw, ew, c1, c2, vm, 12, particles) };
            if updates != 12 { eprintln!("COUNTEREXAMPLE seed={seed} objective_scale={} weights {sw}->{ew} c1={c1} c2={c2} v_max={vm}: {updates} swarm updates observed in 12 iterations", if tiny { "1e-18" } else { "1" }); panic!("swarm invariant violated") }
            if !failures.is_empty() {
                for f in &failures { eprintln!("COUNTEREXAMPLE seed={seed} objective_scale={} weights {sw}->{ew} c1={c1} c2={c2} v_max={vm} particles={particles}: {f}", if tiny { "1e-18" } else { "1" }); }
                panic!("swarm invariant violated");
            }
            cases += 1;
        } }
    }
    println!("c18_native_swarm: {} probed runs (12 iterations each) checked", cases);
}

/// The SHIPPED template `heuristics::pso::real_pso` (the probed runs above assemble the same components by hand): at the end of a
/// run every personal best is at least as good as the position its particle was last evaluated at, carries f(its position), the
/// global best equals the best personal best, and there is one memory per particle -- for social-only (c_one = 0), cognitive-only
/// (c_two = 0) and ordinary swarms.
// @native-harness
pub fn c18_native_shipped_template() {
    let mut cases = 0u64;
    for seed in 0..6u64 {
        for (particles, sw, ew, c1, c2, vm, n) in [(6u32, 0.9, 0.4, 1.0, 1.5, 1.0, 15u32), (5, 0.7, 0.7, 0.0, 2.0, 1.0, 15), (5, 0.7, 0.3, 2.0, 0.0, 0.5, 15), (4, 0.0, 0.0, 0.0, 0.0, 1.0, 4), (1, 1.2, 0.2, 0.0, 1.0, 2.0, 10), (8, 0.5, 0.5, 0.0, 0.5, 0.25, 1)] {
            let config = pso::real_pso::<ScaledSphere<0>>(pso::RealProblemParameters { num_particles: particles, start_weight: sw, end_weight: ew, c_one: c1, c_two: c2, v_max: vm }, LessThanN::iterations(n)).unwrap();
            let state = config.optimize_with(&ScaledSphere::<0>, |state| { state.insert_evaluator(Sequential::<ScaledSphere<0>>::new()); state.insert(Random::new(seed)); Ok(()) }).expect("the shipped PSO template must run");
            let ctx = format!("real_pso particles={particles} weights {sw}->{ew} c_one={c1} c_two={c2} v_max={vm} iterations={n} seed={seed}");
            let fail = |why: String| -> ! { eprintln!("COUNTEREXAMPLE {ctx}: {why}"); panic!("swarm memories violate C18") };
            let pops = state.populations();
            let cur = pops.current();
            let bests = state.borrow_value::<BestParticles<ScaledSphere<0>, Global>>();
            let vels = state.borrow_value::<ParticleVelocities<Global>>();
            if cur.len() != particles as usize || bests.len() != cur.len() || vels.len() != cur.len() { fail(format!("{} particles, {} personal bests, {} velocities", cur.len(), bests.len(), vels.len())) }
            for k in 0..cur.len() {
                if !cur[k].is_evaluated() { fail(format!("particle {k} is not evaluated at the end of the run")) }
                let (b, f) = (bests[k].objective().value(), cur[k].objective().value());
                if b > f { fail(format!("personal best of particle {k} is {b} although the particle has been evaluated at {f}")) }
                if b != scaled::<0>(bests[k].solution()) { fail(format!("personal best of particle {k} carries {b} but f(position) = {}", scaled::<0>(bests[k].solution()))) }
                if vels[k].iter().any(|v| !(*v >= -vm && *v <= vm)) { fail(format!("velocity of particle {k} outside [-{vm}, {vm}]: {:?}", vels[k])) }
            }
            let best_personal = bests.iter().map(|b| b.objective().value()).fold(f64::INFINITY, f64::min);
            match state.borrow_value::<BestParticle<ScaledSphere<0>, Global>>().as_ref() {
                None => fail("no global best at the end of the run".into()),
                Some(g) => if g.objective().value() != best_personal { fail(format!("global best {} differs from the best personal best {best_personal}", g.objective().value())) },
            }
            cases += 1;
        }
    }
    println!("c18_native_shipped_template: {} runs of real_pso checked", cases);
}
