//! C04 — BOUNDED STAND-IN (not a proof) for the utility components of src/components/utils/populations.rs other than
//! `RotatePopulations` (which is a Verus unit): ClearPopulation, DuplicatePopulation, InterleavePopulations,
//! SplitPopulationByObjectiveValue.  Their bodies use itertools adapters (`interleave`, `chunks`, `collect_tuple`) behind the
//! State guard: Verus rejects the adapters, Kani cannot enter State.  Each component is run on every stack of height 1..3 whose
//! populations have 0..3 tagged individuals and the WHOLE stack afterwards is compared with a plain-Vec model: exactly the
//! populations the component is documented to touch change, everything below keeps its individuals and their order.
use super::*;
use crate::{
    components::utils::populations::{ClearPopulation, DuplicatePopulation, InterleavePopulations, SplitPopulationByObjectiveValue},
    state::{common::Populations, random::Random},
    Component, Individual, SingleObjective, State,
};

type P = ScalarProblem;
fn ind(tag: u8, f: f64) -> Individual<P> { Individual::new(tag, SingleObjective::try_from(f).unwrap()) }
type Model = Vec<Vec<(u8, f64)>>;   // bottom .. top

fn observe(state: &State<P>) -> Model {
    let pops = state.populations();
    (0..pops.len()).rev().map(|d| pops.peek(d).iter().map(|i| (*i.solution(), i.objective().value())).collect()).collect()
}

// @native-harness
pub fn c04_native_utility_components() {
    let mut cases = 0u64;
    // objective values chosen so that tags and objective order differ (and with one tie)
    let objective = |tag: u8| -> f64 { [5.0, 1.0, 3.0, 1.0, 9.0, 2.0, 7.0, 0.5, 4.0][tag as usize % 9] };
    for height in 1..=3usize {
        // sizes of the populations, bottom .. top, each 0..=3
        let mut sizes = vec![0usize; height];
        loop {
            let mut tag = 0u8;
            let stack: Model = sizes.iter().map(|n| (0..*n).map(|_| { tag += 1; (tag, objective(tag)) }).collect()).collect();
            let ops: Vec<(&str, Box<dyn Component<P>>)> = vec![("ClearPopulation", ClearPopulation::new()), ("DuplicatePopulation", DuplicatePopulation::new()),
                ("InterleavePopulations", InterleavePopulations::new()), ("SplitPopulationByObjectiveValue", SplitPopulationByObjectiveValue::new())];
            for (name, op) in &ops {
                let top = stack[height - 1].clone();
                // the documented situations: interleaving needs two populations, splitting needs at least two individuals
                if *name == "InterleavePopulations" && height < 2 { continue }
                if *name == "SplitPopulationByObjectiveValue" && top.len() < 2 { continue }
                let mut expected = stack.clone();
                match *name {
                    "ClearPopulation" => { expected[height - 1].clear(); }
                    "DuplicatePopulation" => { expected[height - 1] = top.iter().flat_map(|x| [*x, *x]).collect(); }
                    "InterleavePopulations" => {
                        let (p1, p2) = (expected.pop().unwrap(), expected.pop().unwrap());
                        let mut merged = Vec::new();
                        for k in 0..p1.len().max(p2.len()) { if k < p1.len() { merged.push(p1[k]); } if k < p2.len() { merged.push(p2[k]); } }
                        expected.push(merged);
                    }
                    _ => {
                        let mut sorted = expected.pop().unwrap();
                        sorted.sort_by(|a, b| a.1.partial_cmp(&b.1).unwrap());
                        let better = (sorted.len() + 1) / 2;
                        let (lower, upper) = (sorted[..better].to_vec(), sorted[better..].to_vec());
                        expected.push(upper);
                        expected.push(lower);
                    }
                }
                let mut state: State<P> = State::new();
                state.insert(Random::new(0));
                state.insert(Populations::<P>::new());
                for pop in &stack { state.populations_mut().push(pop.iter().map(|(t, f)| ind(*t, *f)).collect()); }
                op.execute(&ScalarProblem, &mut state).expect("a utility component must not fail in its documented situation");
                let mut got = observe(&state);
                // (splitting sorts with an unstable sort: individuals with EQUAL objective values may come in either order)
                if *name == "SplitPopulationByObjectiveValue" {
                    let norm = |m: &mut Model| { let h = m.len(); for p in &mut m[h - 2..] { p.sort_by(|a, b| a.1.partial_cmp(&b.1).unwrap().then(a.0.cmp(&b.0))); } };
                    norm(&mut got); norm(&mut expected);
                }
                if got != expected {
                    eprintln!("COUNTEREXAMPLE {name} on the stack (bottom..top, (tag, objective)) {stack:?}: the stack afterwards is {got:?}, a plain stack would hold {expected:?}");
                    panic!("a population-stack utility component does not behave like the plain stack operation it documents");
                }
                cases += 1;
            }
            // next size vector
            let mut k = 0;
            while k < height { sizes[k] += 1; if sizes[k] <= 3 { break } sizes[k] = 0; k += 1; }
            if k == height { break }
        }
    }
    println!("c04_native_utility_components: {} component executions compared with the plain-stack model", cases);
}
