//! C04 — population stack: bit-precise Hoare triples on the real `Populations` at concrete heights with
//! symbolic tags / depths.  Complements the unbounded Verus unit: checks the *assumed* std specs
//! (`rotate_right`, range indexing) against the real std code and yields replayable counterexamples.
use super::*;
use crate::{state::common::Populations, Individual};

type P = TagProblem;

fn tagged(tag: u8) -> Vec<Individual<P>> {
    vec![Individual::new_unevaluated(vec![tag])]
}
fn tag_at(s: &Populations<P>, depth: usize) -> u8 {
    let p = s.peek(depth);
    assert!(p.len() == 1);
    p[0].solution()[0]
}
/// stack with `h` populations carrying symbolic tags; returns tags bottom..top
fn sym_stack(h: usize) -> (Populations<P>, Vec<u8>) {
    let mut s = Populations::<P>::new();
    let mut tags = Vec::new();
    for _ in 0..h {
        let t: u8 = sym();
        tags.push(t);
        s.push(tagged(t));
    }
    (s, tags)
}

/// contract of `rotate(n)`, from the property: the top n populations are shifted by one position (the
/// former top goes to depth n-1, the others move up), everything below is untouched, individuals untouched.
fn rotate_triple(h: usize, n: usize) {
    let (mut s, tags) = sym_stack(h);
    s.rotate(n);
    assert!(s.len() == h, "rotate changed the height");
    for i in 0..h {
        // expected tag at position i (bottom = 0)
        let exp = if n == 0 || i < h - n { tags[i] } else if i == h - n { tags[h - 1] } else { tags[i - 1] };
        assert!(tag_at(&s, h - 1 - i) == exp, "rotate(n) did not shift exactly the top n populations by one");
    }
    // n rotations restore the original order
    for _ in 1..n { s.rotate(n); }
    if n > 0 {
        for i in 0..h {
            assert!(tag_at(&s, h - 1 - i) == tags[i], "n rotations of the top n did not restore the order");
        }
    }
}
/// @verif anchor=Populations::rotate bound="height 1, n 0; tags symbolic"
#[cfg_attr(kani, kani::proof)] #[cfg_attr(kani, kani::unwind(7))]
pub fn c04_rotate_h1_n0() { rotate_triple(1, 0) }
/// @verif anchor=Populations::rotate bound="height 1, n 1; tags symbolic"
#[cfg_attr(kani, kani::proof)] #[cfg_attr(kani, kani::unwind(7))]
pub fn c04_rotate_h1_n1() { rotate_triple(1, 1) }
/// @verif anchor=Populations::rotate bound="height 2, n 1; tags symbolic"
#[cfg_attr(kani, kani::proof)] #[cfg_attr(kani, kani::unwind(7))]
pub fn c04_rotate_h2_n1() { rotate_triple(2, 1) }
/// @verif anchor=Populations::rotate bound="height 2, n 2; tags symbolic"
#[cfg_attr(kani, kani::proof)] #[cfg_attr(kani, kani::unwind(7))]
pub fn c04_rotate_h2_n2() { rotate_triple(2, 2) }
/// @verif anchor=Populations::rotate bound="height 3, n 2; tags symbolic"
#[cfg_attr(kani, kani::proof)] #[cfg_attr(kani, kani::unwind(7))]
pub fn c04_rotate_h3_n2() { rotate_triple(3, 2) }
/// @verif anchor=Populations::rotate bound="height 3, n 3; tags symbolic"
#[cfg_attr(kani, kani::proof)] #[cfg_attr(kani, kani::unwind(7))]
pub fn c04_rotate_h3_n3() { rotate_triple(3, 3) }
/// @verif anchor=Populations::rotate tier=thorough bound="height 4, n 3; tags symbolic"
#[cfg_attr(kani, kani::proof)] #[cfg_attr(kani, kani::unwind(7))]
pub fn c04_rotate_h4_n3() { rotate_triple(4, 3) }
/// @verif anchor=Populations::rotate tier=thorough bound="height 4, n 4; tags symbolic"
#[cfg_attr(kani, kani::proof)] #[cfg_attr(kani, kani::unwind(7))]
pub fn c04_rotate_h4_n4() { rotate_triple(4, 4) }

/// contract of `try_peek(d)` / `get_current` / `try_pop`: None iff too shallow, else the population a
/// plain stack holds at that depth; never panics.  Depth fully symbolic.
fn peek_triple(h: usize) {
    let (mut s, tags) = sym_stack(h);
    let d: usize = sym();
    match s.try_peek(d) {
        None => assert!(d >= h, "try_peek reported None for a depth that exists"),
        Some(p) => {
            assert!(d < h, "try_peek invented a population");
            assert!(p.len() == 1 && p[0].solution()[0] == tags[h - 1 - d], "try_peek returned the wrong population");
        }
    }
    assert!(s.get_current().is_some() == (h > 0));
    assert!(s.get_current_mut().is_some() == (h > 0));
    assert!(s.is_empty() == (h == 0) && s.len() == h);
    if h > 0 {
        assert!(s.current()[0].solution()[0] == tags[h - 1]);
        assert!(s.current_mut()[0].solution()[0] == tags[h - 1]);
    }
    let p = s.try_pop();
    assert!(p.is_some() == (h > 0), "try_pop must report an empty stack as None");
    if let Some(p) = p {
        assert!(p[0].solution()[0] == tags[h - 1], "try_pop returned the wrong population");
        assert!(s.len() == h - 1);
        if h > 1 {
            assert!(s.current()[0].solution()[0] == tags[h - 2], "pop disturbed the population below");
        }
    }
    vcover!(d < h || h == 0);
    vcover!(d >= h);
}
/// @verif anchor=Populations::try_peek bound="height 0; depth symbolic (all usize)"
#[cfg_attr(kani, kani::proof)] #[cfg_attr(kani, kani::unwind(7))]
pub fn c04_peek_h0() { peek_triple(0) }
/// @verif anchor=Populations::try_peek bound="height 1; depth symbolic (all usize)"
#[cfg_attr(kani, kani::proof)] #[cfg_attr(kani, kani::unwind(7))]
pub fn c04_peek_h1() { peek_triple(1) }
/// @verif anchor=Populations::try_peek bound="height 3; depth symbolic (all usize)"
#[cfg_attr(kani, kani::proof)] #[cfg_attr(kani, kani::unwind(7))]
pub fn c04_peek_h3() { peek_triple(3) }

/// in-place edits through current_mut affect only the top population
/// @verif anchor=Populations::current_mut bound="height 2; tags symbolic"
#[cfg_attr(kani, kani::proof)] #[cfg_attr(kani, kani::unwind(7))]
pub fn c04_edit_top_h2() {
    let (mut s, tags) = sym_stack(2);
    let removed = s.current_mut().pop();
    assert!(removed.is_some() && removed.unwrap().solution()[0] == tags[1]);
    assert!(s.len() == 2);
    assert!(s.peek(0).is_empty());
    assert!(s.peek(1).len() == 1 && s.peek(1)[0].solution()[0] == tags[0], "edit of the top leaked into the population below");
}

/// the stack is a stack of POPULATIONS: an empty population is an entry like any other (height, emptiness and every accessor
/// speak about populations, not about the individuals in them)
/// @verif anchor=Populations::is_empty bound="stacks [], [[]] and [[], []]"
#[cfg_attr(kani, kani::proof)] #[cfg_attr(kani, kani::unwind(4))]
pub fn c04_empty_populations_count() {
    let mut s = Populations::<P>::new();
    assert!(s.is_empty() && s.len() == 0 && s.get_current().is_none() && s.try_peek(0).is_none());
    s.push(Vec::new());
    assert!(!s.is_empty() && s.len() == 1, "a stack holding one (empty) population is not empty");
    assert!(s.get_current().map(|p| p.len()) == Some(0) && s.try_peek(0).map(|p| p.len()) == Some(0) && s.try_peek(1).is_none());
    s.push(Vec::new());
    assert!(!s.is_empty() && s.len() == 2);
    assert!(s.try_pop().map(|p| p.len()) == Some(0) && s.len() == 1 && !s.is_empty());
    assert!(s.pop().is_empty() && s.is_empty() && s.len() == 0);
}
