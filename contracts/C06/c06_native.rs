//! C06 — BOUNDED STAND-IN (not a proof) for `PopulationEvaluator` (out of reach of both verifiers: the closure captures
//! `&mut population` => Verus rejects; State + eyre => Kani cannot): every individual evaluated exactly once in order,
//! the evaluation counter advances by exactly the population size, a missing evaluator is an error before anything
//! executes.  Native runs on the real code with a call-counting objective function, sequential and parallel evaluators.
use std::sync::atomic::{AtomicUsize, Ordering};

use super::*;
use crate::{
    components::evaluation::PopulationEvaluator,
    configuration::Configuration,
    problems::{ObjectiveFunction, Parallel, Problem, Sequential},
    state::common::Populations,
    Component, Individual, SingleObjective, State,
};

pub struct Counting { calls: AtomicUsize }
impl Problem for Counting {
    type Encoding = u8;
    type Objective = SingleObjective;
    fn name(&self) -> &str { "Counting" }
}
impl ObjectiveFunction for Counting {
    fn objective(&self, s: &u8) -> SingleObjective {
        self.calls.fetch_add(1, Ordering::SeqCst);
        SingleObjective::try_from(*s as f64 * 2.0).unwrap()
    }
}

fn one(n: usize, pre_evaluated_mask: u32, parallel: bool, steps: usize) {
    let problem = Counting { calls: AtomicUsize::new(0) };
    let mut state: State<Counting> = State::new();
    state.insert(Populations::<Counting>::new());
    if parallel { state.insert_evaluator(Parallel::<Counting>::new()); } else { state.insert_evaluator(Sequential::<Counting>::new()); }
    let pop: Vec<Individual<Counting>> = (0..n).map(|i| {
        if pre_evaluated_mask >> (i % 32) & 1 == 1 { Individual::new(i as u8, SingleObjective::try_from(777.0).unwrap()) } else { Individual::new_unevaluated(i as u8) }
    }).collect();
    state.populations_mut().push(pop);
    let ev: Box<dyn Component<Counting>> = PopulationEvaluator::new();
    ev.init(&problem, &mut state).unwrap();
    ev.require(&problem, &state.requirements()).unwrap();
    for step in 1..=steps {
        ev.execute(&problem, &mut state).unwrap();
        let fail = |why: &str| -> ! { eprintln!("COUNTEREXAMPLE n={n} mask={pre_evaluated_mask:b} parallel={parallel} step={step}: {why}"); panic!("evaluation step violates C06") };
        if state.populations().len() != 1 { fail("the population stack changed height") }
        if state.evaluations() as usize != n * step { fail("the evaluation counter did not advance by exactly the population size") }
        if problem.calls.load(Ordering::SeqCst) != n * step { fail("the objective function was not invoked exactly once per individual") }
        let pops = state.populations();
        let cur = pops.current();
        if cur.len() != n { fail("the population size changed") }
        for (i, ind) in cur.iter().enumerate() {
            if *ind.solution() != i as u8 { fail("order or solutions changed") }
            if !ind.is_evaluated() || ind.objective().value() != i as f64 * 2.0 { fail("an individual does not carry the problem's objective value") }
        }
    }
}

// @native-harness
pub fn c06_native_population_evaluator() {
    let mut cases = 0u64;
    for n in 0..=4usize {
        for mask in 0..(1u32 << n) {
            for parallel in [false, true] {
                for steps in 1..=2 { one(n, mask, parallel, steps); cases += 1; }
            }
        }
    }
    // larger populations, both evaluators; the parallel one under worker pools of 1..8 threads (how a population is split over
    // the workers must not matter) and under the global pool
    for n in (5..=70usize).chain([97, 128, 200]) {
        for mask in [0u32, 0xAAAA_AAAA, u32::MAX] {
            one(n, mask, false, 1);
            one(n, mask, true, 2);
            cases += 2;
        }
        for threads in [1usize, 2, 3, 4, 5, 8] {
            let pool = rayon::ThreadPoolBuilder::new().num_threads(threads).build().expect("thread pool");
            pool.install(|| one(n, 0x5555_5555, true, 1));
            cases += 1;
        }
    }
    // "if no evaluator with the requested identifier is registered the run fails with an error before anything executes"
    let problem = Counting { calls: AtomicUsize::new(0) };
    let mut state: State<Counting> = State::new();
    state.insert(Populations::<Counting>::new());
    state.populations_mut().push(vec![Individual::new_unevaluated(1)]);
    let cfg = Configuration::<Counting>::builder().evaluate().build();
    let r = cfg.run(&problem, &mut state);
    if r.is_ok() || problem.calls.load(Ordering::SeqCst) != 0 || state.populations().current()[0].is_evaluated() {
        eprintln!("COUNTEREXAMPLE missing evaluator: result ok={} calls={}", r.is_ok(), problem.calls.load(Ordering::SeqCst));
        panic!("a missing evaluator must be an error before anything executes");
    }
    // the REQUESTED identifier decides: (registered, requested) over {Global, A} -- the run succeeds and evaluates exactly when they agree
    for (reg_a, req_a) in [(false, false), (false, true), (true, false), (true, true)] {
        let problem = Counting { calls: AtomicUsize::new(0) };
        let mut state: State<Counting> = State::new();
        state.insert(Populations::<Counting>::new());
        state.populations_mut().push(vec![Individual::new_unevaluated(1), Individual::new_unevaluated(2)]);
        if reg_a { state.insert_evaluator_as::<crate::identifier::A>(Sequential::<Counting>::new()); } else { state.insert_evaluator(Sequential::<Counting>::new()); }
        let seen = std::sync::Arc::new(AtomicUsize::new(0));
        let seen2 = seen.clone();
        let b = Configuration::<Counting>::builder().debug(move |_, _| { seen2.fetch_add(1, Ordering::SeqCst); });
        let cfg = if req_a { b.evaluate_with::<crate::identifier::A>() } else { b.evaluate() }.build();
        let r = cfg.run(&problem, &mut state);
        let (calls, executed) = (problem.calls.load(Ordering::SeqCst), seen.load(Ordering::SeqCst));
        let ok = if reg_a == req_a { r.is_ok() && calls == 2 && executed == 1 && state.evaluations() == 2 } else { r.is_err() && calls == 0 && executed == 0 };
        if !ok {
            eprintln!("COUNTEREXAMPLE evaluator registered under {} and requested under {}: result ok={} objective calls={calls} components executed before={executed}",
                      if reg_a { "A" } else { "Global" }, if req_a { "A" } else { "Global" }, r.is_ok());
            panic!("the evaluator with the REQUESTED identifier must be required before anything executes");
        }
        cases += 1;
    }
    println!("c06_native_population_evaluator: {} cases checked", cases);
}
