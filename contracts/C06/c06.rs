//! C06 — the sequential evaluator kernel: "applies the registered evaluator to every individual of the current
//! population exactly once, keeps their order and solutions, leaves all of them evaluated with the problem's
//! objective value".  Hoare triple on the real `Sequential::evaluate` with a call-logging objective function.
use std::cell::RefCell;

use super::*;
use crate::{
    problems::{Evaluate, ObjectiveFunction, Problem, Sequential},
    Individual, SingleObjective, State,
};

pub struct LoggingProblem { pub log: RefCell<Vec<u8>> }
// the harness is single-threaded; `Evaluate: Send` requires nothing of the problem itself
impl Problem for LoggingProblem {
    type Encoding = u8;
    type Objective = SingleObjective;
    fn name(&self) -> &str { "LoggingProblem" }
}
impl ObjectiveFunction for LoggingProblem {
    fn objective(&self, solution: &u8) -> SingleObjective {
        self.log.borrow_mut().push(*solution);
        SingleObjective::try_from(*solution as f64 + 0.5).unwrap()
    }
}

fn evaluate_n(n: usize) {
    let problem = LoggingProblem { log: RefCell::new(Vec::new()) };
    let mut pop: Vec<Individual<LoggingProblem>> = Vec::new();
    let mut tags = Vec::new();
    for _ in 0..n {
        let t: u8 = sym();
        tags.push(t);
        // some individuals may already carry a (stale) value: evaluation must overwrite it
        if sym::<bool>() { pop.push(Individual::new(t, sym_objective())); } else { pop.push(Individual::new_unevaluated(t)); }
    }
    let mut state: State<LoggingProblem> = State::new();
    Sequential::<LoggingProblem>::new().evaluate(&problem, &mut state, &mut pop);
    std::mem::forget(state);
    assert!(pop.len() == n, "evaluation changed the population size");
    let log = problem.log.borrow();
    assert!(log.len() == n, "the objective function was not invoked exactly once per individual");
    for i in 0..n {
        assert!(log[i] == tags[i], "individuals were not evaluated in order, each once");
        assert!(*pop[i].solution() == tags[i], "evaluation changed a solution or the order");
        assert!(pop[i].is_evaluated(), "an individual was left unevaluated");
        assert!(pop[i].objective().value() == tags[i] as f64 + 0.5, "an individual does not carry the objective value of its solution");
    }
}
/// @verif anchor=Sequential::evaluate bound="population size 0"
#[cfg_attr(kani, kani::proof)] #[cfg_attr(kani, kani::unwind(6))]
pub fn c06_sequential_0() { evaluate_n(0) }
/// @verif anchor=Sequential::evaluate bound="population size 1"
#[cfg_attr(kani, kani::proof)] #[cfg_attr(kani, kani::unwind(6))]
pub fn c06_sequential_1() { evaluate_n(1) }
/// @verif anchor=Sequential::evaluate bound="population size 3; all tags, any mix of evaluated/unevaluated"
#[cfg_attr(kani, kani::proof)] #[cfg_attr(kani, kani::unwind(6))]
pub fn c06_sequential_3() { evaluate_n(3) }

// ---- the requirement check itself: `StateReq::require::<S, T>()` is Ok exactly if a `T` is present (this is the trusted
// mirror contract of the Verus unit C06/verus/require, discharged here on the real code; scopes: the type may live in a
// parent scope)
use better_any::{Tid, TidAble};
#[derive(Tid)]
pub struct Flag(pub u8);
impl crate::CustomState<'_> for Flag {}
#[derive(Tid)]
pub struct Other(pub u8);
impl crate::CustomState<'_> for Other {}

/// @verif anchor=StateReq::require bound="one scope; Flag present or absent"
#[cfg_attr(kani, kani::proof)] #[cfg_attr(kani, kani::unwind(6))]
pub fn c06_require_iff_present_1() {
    let mut state: State<LoggingProblem> = State::new();
    let has_flag: bool = sym();
    if has_flag { state.insert(Flag(1)); }
    let r = state.requirements().require::<LoggingProblem, Flag>();
    assert!(r.is_ok() == has_flag, "require::<_, T>() must be Ok exactly if a T is present");
    std::mem::forget(r); std::mem::forget(state);
}
/// @verif anchor=StateReq::require tier=thorough bound="one scope; Flag/Other present or absent in any combination"
#[cfg_attr(kani, kani::proof)] #[cfg_attr(kani, kani::unwind(6))]
pub fn c06_require_iff_present() {
    let mut state: State<LoggingProblem> = State::new();
    let (has_flag, has_other): (bool, bool) = (sym(), sym());
    if has_other { state.insert(Other(2)); }
    if has_flag { state.insert(Flag(1)); }
    let r = state.requirements().require::<LoggingProblem, Flag>();
    assert!(r.is_ok() == has_flag, "require::<_, T>() must be Ok exactly if a T is present");
    let r2 = state.requirements().require::<LoggingProblem, Other>();
    assert!(r2.is_ok() == has_other, "require::<_, T>() must be Ok exactly if a T is present");
    std::mem::forget(r); std::mem::forget(r2); std::mem::forget(state);
}
