//! C12 — replacement kernels: Hoare triples on the real `Replacement::replace` implementations, population sizes
//! concrete (listed), tags / objective values / mu symbolic, RNG symbolic (`SymRng`).
//! The Err arm is `mem::forget`-ed so that no eyre::Report drop glue is generated (DESIGN fact 18); all these
//! kernels return Ok on every path.
use super::*;
use crate::{
    components::replacement::{DiscardOffspring, Generational, Merge, MuPlusLambda, RandomReplacement, Replacement},
    state::random::Random,
    Individual,
};

type I = Individual<ScalarProblem>;

fn same(a: &I, b: &I) -> bool { a.solution() == b.solution() && a.get_objective() == b.get_objective() }
fn rng() -> Random { Random::with_rng::<SymRng>(0) }
fn ok_or_forget(r: crate::ExecResult<Vec<I>>) -> Vec<I> {
    match r {
        Ok(v) => v,
        Err(e) => { std::mem::forget(e); assert!(false, "replace returned an error on a valid input"); Vec::new() }
    }
}
/// "consisting only of individuals (with their objective values) taken from parents and offspring, each at
/// most as often as it occurred there"
fn sub_multiset(res: &[I], parents: &[I], offspring: &[I]) {
    for x in res {
        assert!(occurrences(res, x) <= occurrences(parents, x) + occurrences(offspring, x),
                "result contains an individual more often than parents and offspring together");
    }
}

fn discard(np: usize, no: usize) {
    let (p, o) = (sym_population(np), sym_population(no));
    let (p0, o0) = (p.clone(), o.clone());
    let res = ok_or_forget(DiscardOffspring.replace(p, o, &mut rng()));
    assert!(res.len() == np, "DiscardOffspring: result is not 'all parents'");
    for i in 0..np { assert!(same(&res[i], &p0[i]), "DiscardOffspring: result is not 'all parents'"); }
    sub_multiset(&res, &p0, &o0);
}
/// @verif anchor=DiscardOffspring::replace bound="2 parents, 2 offspring; all tags/objectives"
#[cfg_attr(kani, kani::proof)] #[cfg_attr(kani, kani::unwind(6))]
pub fn c12_discard_2_2() { discard(2, 2) }
/// @verif anchor=DiscardOffspring::replace bound="0 parents, 1 offspring"
#[cfg_attr(kani, kani::proof)] #[cfg_attr(kani, kani::unwind(6))]
pub fn c12_discard_0_1() { discard(0, 1) }

fn generational(np: usize, no: usize) {
    let (p, o) = (sym_population(np), sym_population(no));
    let (p0, o0) = (p.clone(), o.clone());
    let mu: u32 = sym();
    let res = ok_or_forget(Generational::from_params(mu).replace(p, o, &mut rng()));
    assert!(res.len() == no, "Generational: result is not 'all offspring'");
    for i in 0..no { assert!(same(&res[i], &o0[i]), "Generational: result is not 'all offspring'"); }
    sub_multiset(&res, &p0, &o0);
}
/// @verif anchor=Generational::replace bound="2 parents, 2 offspring; all tags/objectives, all mu"
#[cfg_attr(kani, kani::proof)] #[cfg_attr(kani, kani::unwind(6))]
pub fn c12_generational_2_2() { generational(2, 2) }
/// @verif anchor=Generational::replace bound="1 parent, 3 offspring; all mu"
#[cfg_attr(kani, kani::proof)] #[cfg_attr(kani, kani::unwind(6))]
pub fn c12_generational_1_3() { generational(1, 3) }

fn merge(np: usize, no: usize) {
    let (p, o) = (sym_population(np), sym_population(no));
    let (p0, o0) = (p.clone(), o.clone());
    let res = ok_or_forget(Merge.replace(p, o, &mut rng()));
    assert!(res.len() == np + no, "Merge: result is not the concatenation");
    for i in 0..np { assert!(same(&res[i], &p0[i]), "Merge: result is not the concatenation"); }
    for i in 0..no { assert!(same(&res[np + i], &o0[i]), "Merge: result is not the concatenation"); }
}
/// @verif anchor=Merge::replace bound="2 parents, 2 offspring"
#[cfg_attr(kani, kani::proof)] #[cfg_attr(kani, kani::unwind(6))]
pub fn c12_merge_2_2() { merge(2, 2) }
/// @verif anchor=Merge::replace bound="0 parents, 2 offspring"
#[cfg_attr(kani, kani::proof)] #[cfg_attr(kani, kani::unwind(6))]
pub fn c12_merge_0_2() { merge(0, 2) }

fn mu_plus_lambda(np: usize, no: usize, mu: u32) {
    // mu is CONCRETE per call: a symbolic bound makes `Vec::truncate` intractable for CBMC
    let (p, o) = (sym_population(np), sym_population(no));
    let (p0, o0) = (p.clone(), o.clone());
    let res = ok_or_forget(MuPlusLambda::from_params(mu).replace(p, o, &mut rng()));
    let total = np + no;
    let want = if (mu as usize) < total { mu as usize } else { total };
    assert!(res.len() == want, "MuPlusLambda: result size is not min(mu, |parents| + |offspring|)");
    sub_multiset(&res, &p0, &o0);
    // "no discarded individual is better than a kept one": every kept one is <= every individual of the union
    // that is not accounted for in the result
    for i in 1..res.len() {
        assert!(res[i - 1].objective() <= res[i].objective(), "MuPlusLambda: result is not sorted by objective");
    }
    if let Some(worst_kept) = res.last() {
        for x in p0.iter().chain(o0.iter()) {
            if occurrences(&res, x) < occurrences(&p0, x) + occurrences(&o0, x) {
                assert!(worst_kept.objective() <= x.objective(), "MuPlusLambda: a discarded individual is better than a kept one");
            }
        }
    }
}
/// @verif anchor=MuPlusLambda::replace bound="2 parents, 1 offspring; mu = 1; all tags/objectives incl. ties and +inf"
#[cfg_attr(kani, kani::proof)] #[cfg_attr(kani, kani::unwind(8))]
pub fn c12_mupluslambda_2_1_mu1() { mu_plus_lambda(2, 1, 1) }
/// @verif anchor=MuPlusLambda::replace bound="2 parents, 1 offspring; mu = 2; all tags/objectives incl. ties and +inf"
#[cfg_attr(kani, kani::proof)] #[cfg_attr(kani, kani::unwind(8))]
pub fn c12_mupluslambda_2_1_mu2() { mu_plus_lambda(2, 1, 2) }
/// @verif anchor=MuPlusLambda::replace bound="1 parent, 1 offspring; mu = 3 (room for everybody); all tags/objectives incl. ties and +inf"
#[cfg_attr(kani, kani::proof)] #[cfg_attr(kani, kani::unwind(8))]
pub fn c12_mupluslambda_1_1_mu3() { mu_plus_lambda(1, 1, 3) }
/// @verif anchor=MuPlusLambda::replace tier=thorough bound="2 parents, 1 offspring; mu in {0, 3, 4}"
#[cfg_attr(kani, kani::proof)] #[cfg_attr(kani, kani::unwind(8))]
pub fn c12_mupluslambda_2_1_rest() { mu_plus_lambda(2, 1, 0); mu_plus_lambda(2, 1, 3); mu_plus_lambda(2, 1, 4); }
/// @verif anchor=MuPlusLambda::replace tier=thorough bound="2 parents, 2 offspring; mu in {1, 2, 3}"
#[cfg_attr(kani, kani::proof)] #[cfg_attr(kani, kani::unwind(8))]
pub fn c12_mupluslambda_2_2() { mu_plus_lambda(2, 2, 1); mu_plus_lambda(2, 2, 2); mu_plus_lambda(2, 2, 3); }

fn random_replacement(np: usize, no: usize, mu: u32) {
    let (p, o) = (sym_population(np), sym_population(no));
    let (p0, o0) = (p.clone(), o.clone());
    let res = ok_or_forget(RandomReplacement::from_params(mu).replace(p, o, &mut rng()));
    let total = np + no;
    let want = if (mu as usize) < total { mu as usize } else { total };
    assert!(res.len() == want, "RandomReplacement: result size is not min(mu, total)");
    sub_multiset(&res, &p0, &o0);
}
// NOT a registered harness (no @verif tag): `shuffle` draws with rand's rejection sampling, whose loop over a symbolic generator has
// no bound, so the unwinding assertion can never be discharged (measured in the thorough run).  RandomReplacement::replace is
// decided unboundedly by the Verus unit `simple_ops` and its driver-level behaviour by the bounded Kani/native units.
#[allow(dead_code)]
pub fn c12_random_1_1_unregistered() { random_replacement(1, 1, 0); random_replacement(1, 1, 1); random_replacement(1, 1, 2); random_replacement(1, 1, 3); }
