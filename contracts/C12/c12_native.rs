//! C12 — BOUNDED STAND-IN (not a proof) for `KeepBetterAtIndex::replace`, which neither verifier reaches (`ensure!`
//! constructs an eyre report => Kani ICE; iterator chain => Verus rejects): "index-wise the better of parent and offspring
//! with ties kept by the parent and an error on unequal sizes".  Native exhaustive enumeration on the real code.
use super::*;
use crate::{components::replacement::{KeepBetterAtIndex, Replacement}, state::random::Random, Individual};

type I = Individual<ScalarProblem>;
fn ind(tag: u8, f: f64) -> I { Individual::new(tag, crate::SingleObjective::try_from(f).unwrap()) }

// @native-harness
pub fn c12_native_keep_better_at_index() {
    let values = [-1.0, 0.0, 0.5, 2.0, f64::INFINITY];
    let mut rng = Random::new(0);
    let mut n = 0u64;
    // all parent/offspring populations of equal size 0..=2 over the value grid (parents tagged 1.., offspring 101..)
    for size in 0..=2usize {
        let combos = values.len().pow(2 * size as u32);
        for c in 0..combos {
            let mut k = c;
            let mut parents = Vec::new();
            let mut offspring = Vec::new();
            for i in 0..size { parents.push(ind(1 + i as u8, values[k % values.len()])); k /= values.len(); }
            for i in 0..size { offspring.push(ind(101 + i as u8, values[k % values.len()])); k /= values.len(); }
            let (p0, o0) = (parents.clone(), offspring.clone());
            let res = <KeepBetterAtIndex as Replacement<ScalarProblem>>::replace(&KeepBetterAtIndex, parents, offspring, &mut rng)
                .expect("equal sizes must not be an error");
            assert!(res.len() == size);
            for i in 0..size {
                let want = if o0[i].objective() < p0[i].objective() { &o0[i] } else { &p0[i] };   // ties kept by the parent
                if !(res[i].solution() == want.solution() && res[i].objective() == want.objective()) {
                    eprintln!("COUNTEREXAMPLE index {i}: parent {:?}/{} offspring {:?}/{} -> kept tag {}", p0[i].solution(), p0[i].objective().value(),
                              o0[i].solution(), o0[i].objective().value(), res[i].solution());
                    panic!("KeepBetterAtIndex: not the better of parent and offspring with ties kept by the parent");
                }
            }
            n += 1;
        }
    }
    // unequal sizes are an error, not a panic
    for (a, b) in [(0usize, 1usize), (1, 0), (1, 2), (2, 1)] {
        let parents: Vec<I> = (0..a).map(|i| ind(i as u8, 1.0)).collect();
        let offspring: Vec<I> = (0..b).map(|i| ind(100 + i as u8, 1.0)).collect();
        let r = <KeepBetterAtIndex as Replacement<ScalarProblem>>::replace(&KeepBetterAtIndex, parents, offspring, &mut rng);
        if r.is_ok() { eprintln!("COUNTEREXAMPLE sizes {a} vs {b} accepted"); panic!("unequal sizes must be reported as an error"); }
    }
    println!("c12_native_keep_better_at_index: {} population pairs checked", n);
}

// BOUNDED STAND-IN (not a proof) for `RandomReplacement::replace` on the real `rand` shuffle (the Verus unit `simple_ops` proves the
// kernel against the ASSUMED meaning of `shuffle`: some permutation; a Kani harness cannot unwind rand's rejection-sampling loop):
// "mu random ones": min(mu, total) individuals, each taken from parents ++ offspring at most as often as it occurred there.
// @native-harness
pub fn c12_native_random_replacement() {
    use crate::components::replacement::RandomReplacement;
    let mut n = 0u64;
    for np in 0..=3usize { for no in 0..=3usize { for mu in 0..=7u32 { for seed in 0..16u64 {
        let parents: Vec<I> = (0..np).map(|i| ind(1 + i as u8, i as f64)).collect();
        let offspring: Vec<I> = (0..no).map(|i| ind(101 + i as u8, 10.0 + i as f64)).collect();
        let all: Vec<u8> = parents.iter().chain(&offspring).map(|i| *i.solution()).collect();
        let mut rng = Random::new(seed);
        let res = <RandomReplacement as Replacement<ScalarProblem>>::replace(&RandomReplacement::from_params(mu), parents, offspring, &mut rng).expect("RandomReplacement must not fail");
        let tags: Vec<u8> = res.iter().map(|i| *i.solution()).collect();
        let want = (mu as usize).min(np + no);
        let mut sorted = tags.clone(); sorted.sort_unstable(); sorted.dedup();
        if tags.len() != want || sorted.len() != tags.len() || tags.iter().any(|t| !all.contains(t))
            || res.iter().any(|i| i.objective().value() != if *i.solution() > 100 { 10.0 + (*i.solution() - 101) as f64 } else { (*i.solution() - 1) as f64 }) {
            eprintln!("COUNTEREXAMPLE parents={np} offspring={no} mu={mu} seed={seed}: kept tags {tags:?} out of {all:?}");
            panic!("RandomReplacement: not min(mu, total) distinct members of parents ++ offspring with their objective values");
        }
        n += 1;
    }}}}
    println!("c12_native_random_replacement: {} cases checked", n);
}

// BOUNDED STAND-IN (not a proof) for `MuPlusLambda::replace` on the real std sort (the Verus unit `mu_plus_lambda` proves the kernel
// against the ASSUMED meaning of extend / sort_unstable_by_key / truncate; the Kani kernels cover sizes <= 2+2): "the mu best of
// both (no discarded individual is better than a kept one)", min(mu, total) individuals, each taken from parents ++ offspring at
// most as often as it occurred there.  Exhaustive over a value grid.
// @native-harness
pub fn c12_native_mu_plus_lambda() {
    use crate::components::replacement::MuPlusLambda;
    let values = [-1.0, 0.0, 0.5, 2.0, f64::INFINITY];
    let mut rng = Random::new(0);
    let mut n = 0u64;
    for np in 0..=3usize { for no in 0..=3usize {
        let combos = values.len().pow((np + no) as u32);
        for c in 0..combos {
            let mut k = c;
            let parents: Vec<I> = (0..np).map(|i| { let v = values[k % values.len()]; k /= values.len(); ind(1 + i as u8, v) }).collect();
            let offspring: Vec<I> = (0..no).map(|i| { let v = values[k % values.len()]; k /= values.len(); ind(101 + i as u8, v) }).collect();
            for mu in 0..=(np + no + 1) as u32 {
                let res = <MuPlusLambda as Replacement<ScalarProblem>>::replace(&MuPlusLambda::from_params(mu), parents.clone(), offspring.clone(), &mut rng).expect("MuPlusLambda must not fail");
                let mut all: Vec<(f64, u8)> = parents.iter().chain(&offspring).map(|i| (i.objective().value(), *i.solution())).collect();
                all.sort_by(|a, b| a.0.total_cmp(&b.0));
                let want = (mu as usize).min(np + no);
                let kept: Vec<(f64, u8)> = res.iter().map(|i| (i.objective().value(), *i.solution())).collect();
                let mut tags: Vec<u8> = kept.iter().map(|k| k.1).collect(); tags.sort_unstable(); tags.dedup();
                let ok = kept.len() == want && tags.len() == kept.len() && kept.iter().all(|k| all.contains(k))
                    && kept.iter().map(|k| k.0).collect::<Vec<_>>() == all[..want].iter().map(|a| a.0).collect::<Vec<_>>();
                if !ok {
                    eprintln!("COUNTEREXAMPLE mu={mu} parents={:?} offspring={:?}: kept (objective, tag) {kept:?}", parents.iter().map(|i| i.objective().value()).collect::<Vec<_>>(), offspring.iter().map(|i| i.objective().value()).collect::<Vec<_>>());
                    panic!("MuPlusLambda: not the mu best of parents ++ offspring");
                }
                n += 1;
            }
        }
    }}
    println!("c12_native_mu_plus_lambda: {} cases checked", n);
}

/// `Merge`, `Generational`, `DiscardOffspring` (Verus units `simple_ops`, unbounded, on the pinned bodies): run natively on all
/// population sizes 0..=3 x 0..=3 so that changed bodies the extractor cannot parse (tuple patterns, `extend` on a moved vector:
/// seed C12_f left the Verus unit undecided) are still DECIDED: "all parents, all offspring, their concatenation" — the
/// individuals, their objective values and their order, parents first.
// @native-harness
pub fn c12_native_simple_replacements() {
    use crate::components::replacement::{DiscardOffspring, Generational, Merge};
    let mut rng = Random::new(0);
    let mut n = 0u64;
    for np in 0..=3usize {
        for no in 0..=3usize {
            let parents: Vec<I> = (0..np).map(|i| ind(1 + i as u8, [3.0, 1.0, 2.0][i])).collect();
            let offspring: Vec<I> = (0..no).map(|i| ind(101 + i as u8, [0.5, 4.0, 1.0][i])).collect();
            let cat: Vec<I> = parents.iter().cloned().chain(offspring.iter().cloned()).collect();
            let fail = |name: &str, got: &Vec<I>, want: &Vec<I>| -> ! {
                eprintln!("COUNTEREXAMPLE {name} with {np} parents (tags 1..) and {no} offspring (tags 101..): result tags {:?}, expected {:?}",
                          got.iter().map(|i| *i.solution()).collect::<Vec<_>>(), want.iter().map(|i| *i.solution()).collect::<Vec<_>>());
                panic!("a replacement operator does not return what it is named for")
            };
            let r = <Merge as Replacement<ScalarProblem>>::replace(&Merge, parents.clone(), offspring.clone(), &mut rng).expect("Merge must not fail");
            if r != cat { fail("Merge", &r, &cat) }
            for mu in [0u32, 1, 2, 5] {
                let g = Generational::from_params(mu);
                let r = <Generational as Replacement<ScalarProblem>>::replace(&g, parents.clone(), offspring.clone(), &mut rng).expect("Generational must not fail");
                if r != offspring { fail("Generational", &r, &offspring) }
            }
            let r = <DiscardOffspring as Replacement<ScalarProblem>>::replace(&DiscardOffspring, parents.clone(), offspring.clone(), &mut rng).expect("DiscardOffspring must not fail");
            if r != parents { fail("DiscardOffspring", &r, &parents) }
            n += 1;
        }
    }
    println!("c12_native_simple_replacements: {} size combinations checked", n);
}
