//! C01 — "lookups ... resolve to the innermost scope holding the type" for the multi-reference accessor as well: every element of
//! `try_get_multiple_mut::<(X, Y)>()` is resolved from the INNERMOST scope on its own, whatever the order of the tuple and wherever
//! the other elements were found (hand-written complement of the generated triples in c01.rs, which look types up one at a time).
use super::c01::{A, B, C};
use super::*;
use crate::{StateError, StateRegistry};

fn forget<T>(r: Result<T, StateError>) -> Option<T> { match r { Ok(t) => Some(t), Err(e) => { std::mem::forget(e); None } } }

/// parent {A, B}, child {B, C}: A resolves to the parent, B to the child (it shadows the parent's), C to the child
/// @verif anchor=StateRegistry::try_get_multiple_mut bound="two scopes: parent {A, B}, child {B, C}; tuples (A,B), (B,A), (A,C), (C,A); symbolic payloads"
#[cfg_attr(kani, kani::proof)] #[cfg_attr(kani, kani::unwind(6))]
pub fn c01_multi_get_across_scopes() {
    let (a0, b0, b1, c1, x): (u32, u32, u32, u32, u32) = (sym(), sym(), sym(), sym(), sym());
    let mut r = StateRegistry::new();
    r.insert(A(a0));
    r.insert(B(b0));
    let mut r = r.into_child();
    r.insert(B(b1));
    r.insert(C(c1));
    {
        match forget(r.try_get_multiple_mut::<(A, B)>()) {
            Some((a, b)) => { assert!(a.0 == a0, "A lives in the parent scope"); assert!(b.0 == b1, "B must resolve to the innermost scope holding it, not to the scope where A was found"); b.0 = x; }
            None => assert!(false, "(A, B): both types are present"),
        }
    }
    {
        match forget(r.try_get_multiple_mut::<(B, A)>()) {
            Some((b, a)) => { assert!(a.0 == a0 && b.0 == x, "(B, A) must see the write made through (A, B) in the innermost scope"); }
            None => assert!(false, "(B, A): both types are present"),
        }
    }
    {
        match forget(r.try_get_multiple_mut::<(A, C)>()) {
            Some((a, c)) => assert!(a.0 == a0 && c.0 == c1, "(A, C): C lives only in the child scope and must be found after an element found in the parent"),
            None => assert!(false, "(A, C): both types are present"),
        }
        match forget(r.try_get_multiple_mut::<(C, A)>()) {
            Some((c, a)) => assert!(a.0 == a0 && c.0 == c1),
            None => assert!(false, "(C, A): both types are present"),
        }
    }
    // the shadowed value in the parent is untouched
    assert!(forget(r.parent().unwrap().try_get_value::<B>()) == Some(b0), "the shadowed B of the parent scope must be unchanged");
    assert!(forget(r.try_get_value::<B>()) == Some(x));
    std::mem::forget(r);
}
