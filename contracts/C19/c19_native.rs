//! C19 — BOUNDED STAND-IN (not a proof) for ant-colony generation and the pheromone updates (State-based bodies with iterator
//! chains, `powf` and `WeightedIndex` sampling: out of reach of both verifiers; the matrix kernel itself is the Kani harness):
//! "Ant-colony generation always yields one greedy tour plus the requested number of sampled tours, each a permutation of all
//! cities starting at city 0, for every pheromone state the algorithm can reach.  A pheromone update first evaporates every
//! trail by the evaporation factor and then reinforces, symmetrically, exactly the edges between consecutive cities of the
//! rewarded tours by an amount inversely proportional to tour length, keeping all trails finite and non-negative and, for the
//! max-min variant, within the configured bounds."
//! Native runs of the real components on small TSP instances: generation + evaluation + update, step by step over 25
//! iterations x 4 seeds x 2 instances x {ant system, max-min}, each update compared with an independently computed expectation.
use super::*;
use crate::{
    components::{generative::{AcoGeneration, AsPheromoneUpdate, MinMaxPheromoneUpdate, PheromoneMatrix}, initialization::Empty},
    problems::{ObjectiveFunction, Problem, Sequential, TravellingSalespersonProblem, VectorProblem},
    state::{common::Populations, random::Random},
    Component, Configuration, SingleObjective, State,
};

pub struct Tsp { pub d: Vec<Vec<f64>> }
impl Problem for Tsp {
    type Encoding = Vec<usize>;
    type Objective = SingleObjective;
    fn name(&self) -> &str { "Tsp" }
}
impl VectorProblem for Tsp {
    type Element = usize;
    fn dimension(&self) -> usize { self.d.len() }
}
impl TravellingSalespersonProblem for Tsp {
    fn distance(&self, edge: (usize, usize)) -> f64 { self.d[edge.0][edge.1] }
}
fn tour_length(d: &[Vec<f64>], t: &[usize]) -> f64 {
    let mut l = 0.0;
    for w in t.windows(2) { l += d[w[0]][w[1]]; }
    l + d[*t.last().unwrap()][t[0]]
}
impl ObjectiveFunction for Tsp {
    fn objective(&self, s: &Vec<usize>) -> SingleObjective { SingleObjective::try_from(tour_length(&self.d, s)).unwrap() }
}

fn matrix(state: &State<Tsp>, n: usize) -> Vec<Vec<f64>> {
    let pm = state.borrow::<PheromoneMatrix>();
    (0..n).map(|i| pm[i].to_vec()).collect()
}

fn run(instance: &Tsp, seed: u64, min_max: bool, tau0: f64, alpha: f64) -> u64 {
    let n = instance.dimension();
    let (num_ants, beta, evaporation, decay, tmax, tmin) = (4usize, 2.0, 0.2, 1.5, 2.0, 0.05);
    let generation: Box<dyn Component<Tsp>> = AcoGeneration::new(num_ants, alpha, beta, tau0);
    let update: Box<dyn Component<Tsp>> = if min_max { MinMaxPheromoneUpdate::new(evaporation, tmax, tmin).unwrap() } else { AsPheromoneUpdate::new(evaporation, decay) };
    let evaluate = Configuration::<Tsp>::builder().evaluate().build();
    let mut state: State<Tsp> = State::new();
    state.insert(Random::new(seed));
    state.insert(Populations::<Tsp>::new());
    state.insert_evaluator(Sequential::<Tsp>::new());
    <Empty as Component<Tsp>>::execute(&Empty, instance, &mut state).unwrap();
    generation.init(instance, &mut state).unwrap();
    evaluate.heuristic().init(instance, &mut state).unwrap();
    update.require(instance, &state.requirements()).expect("the pheromone matrix must be present after the generation's init");
    let variant = if min_max { "MinMaxPheromoneUpdate" } else { "AsPheromoneUpdate" };
    let fail = |it: usize, why: String| -> ! { eprintln!("COUNTEREXAMPLE {variant} cities={n} seed={seed} initial_pheromones={tau0} alpha={alpha} iteration={it}: {why}"); panic!("ant colony component violates C19") };
    let mut steps = 0;
    for it in 0..25usize {
        generation.execute(instance, &mut state).expect("generation must not fail");
        {
            let pops = state.populations();
            if pops.len() != 1 { fail(it, "generation changed the height of the population stack".into()) }
            let tours = pops.current();
            if tours.len() != num_ants + 1 { fail(it, format!("{} tours generated, expected one greedy tour plus {num_ants} sampled tours", tours.len())) }
            for t in tours.iter() {
                let mut s = t.solution().clone(); s.sort_unstable();
                if t.solution()[0] != 0 || s != (0..n).collect::<Vec<_>>() { fail(it, format!("{:?} is not a permutation of all cities starting at city 0", t.solution())) }
                if t.is_evaluated() { fail(it, "a freshly generated tour is already evaluated".into()) }
            }
            // the greedy tour follows the largest pheromone value among the remaining cities
            let pm = matrix(&state, n);
            let g = tours[0].solution();
            for k in 1..n {
                let here = g[k - 1];
                let best = (0..n).filter(|c| !g[..k].contains(c)).map(|c| pm[here][c]).fold(f64::NEG_INFINITY, f64::max);
                if pm[here][g[k]] != best { fail(it, format!("the first tour {g:?} is not greedy at step {k}")) }
            }
        }
        evaluate.heuristic().execute(instance, &mut state).unwrap();
        let before = matrix(&state, n);
        let tours: Vec<(Vec<usize>, f64)> = state.populations().current().iter().map(|i| (i.solution().clone(), i.objective().value())).collect();
        update.execute(instance, &mut state).expect("the pheromone update must not fail");
        let after = matrix(&state, n);
        // independently computed expectation: evaporate every trail, then reinforce the rewarded tours' edges symmetrically.
        // Ant system: the result is fully determined.  Max-min: where exactly the bounds are enforced is not part of the
        // property, so an un-rewarded trail must be the evaporated value limited to the bounds, and a rewarded edge must lie within
        // the bounds, not below its evaporated (limited) value and not above that value plus the reward.
        let mut evaporated = before.clone();
        for row in evaporated.iter_mut() { for x in row.iter_mut() { *x *= 1.0 - evaporation; } }
        let rewarded: Vec<&(Vec<usize>, f64)> = if min_max {
            vec![tours.iter().skip(1).min_by(|a, b| a.1.total_cmp(&b.1)).unwrap()]
        } else { tours.iter().skip(1).collect() };
        let mut reward = vec![vec![0.0f64; n]; n];
        for (t, len) in rewarded {
            let delta = if min_max { 1.0 / len } else { decay / len };
            for w in t.windows(2) { reward[w[0]][w[1]] += delta; reward[w[1]][w[0]] += delta; }
        }
        for i in 0..n { for j in 0..n {
            let x = after[i][j];
            if !x.is_finite() || x < 0.0 { fail(it, format!("trail ({i}, {j}) is {x}: not finite and non-negative")) }
            if after[i][j] != after[j][i] && before[i][j] == before[j][i] { fail(it, format!("the update is not symmetric: trail ({i}, {j}) = {x}, trail ({j}, {i}) = {}", after[j][i])) }
            let tol = |v: f64| 1e-12 * v.abs().max(1.0);
            if !min_max {
                let want = evaporated[i][j] + reward[i][j];
                if (x - want).abs() > tol(want) { fail(it, format!("trail ({i}, {j}) is {x} after the update, expected {want} (evaporate every trail by {evaporation}, then reinforce the rewarded tours' edges by {decay}/length)")) }
            } else {
                if i != j && (x < tmin || x > tmax) { fail(it, format!("trail ({i}, {j}) = {x} lies outside the configured bounds [{tmin}, {tmax}] of the max-min variant")) }
                let base = evaporated[i][j].clamp(tmin, tmax);
                if reward[i][j] == 0.0 {
                    if i != j && (x - base).abs() > tol(base) { fail(it, format!("un-rewarded trail ({i}, {j}) is {x}, expected the evaporated value {} limited to the bounds", evaporated[i][j])) }
                } else if x < base - tol(base) || x > (base + reward[i][j]).min(tmax) + tol(base) || (x <= base && base < tmax && base + reward[i][j] > base) {   // (a reward below the resolution of the trail is absorbed by rounding)
                    fail(it, format!("rewarded trail ({i}, {j}) is {x}; evaporated value {} , reward {}", evaporated[i][j], reward[i][j]))
                }
            }
        }}
        steps += 1;
    }
    steps
}

// @native-harness
pub fn c19_native_ant_colony() {
    let line: Vec<Vec<f64>> = (0..5).map(|i: i32| (0..5).map(|j: i32| if i == j { 1.0e9 } else { (i - j).abs() as f64 }).collect()).collect();
    let mixed: Vec<Vec<f64>> = (0..6).map(|i: usize| (0..6).map(|j: usize| if i == j { 1.0e9 } else { 1.0 + ((i * 7 + j * 7 + i * j) % 5) as f64 }).collect()).collect();
    let mut cases = 0u64;
    // the same two instances at other length scales (tour lengths far below and far above 1: "an amount inversely proportional
    // to tour length" must hold there too; at 1e200 the heuristic factor (1/d)^beta underflows to 0 for every edge), and the
    // smallest instances (2 and 3 cities)
    let scaled = |m: &Vec<Vec<f64>>, f: f64| -> Vec<Vec<f64>> { m.iter().enumerate().map(|(i, r)| r.iter().enumerate().map(|(j, v)| if i == j { *v } else { v * f }).collect()).collect() };
    let tiny: Vec<Vec<f64>> = vec![vec![1.0e9, 0.3], vec![0.3, 1.0e9]];
    let three: Vec<Vec<f64>> = vec![vec![1.0e9, 2.0, 0.5], vec![2.0, 1.0e9, 4.0], vec![0.5, 4.0, 1.0e9]];
    let instances = vec![Tsp { d: scaled(&line, 1.0e200) }, Tsp { d: scaled(&line, 0.01) }, Tsp { d: scaled(&mixed, 1.0e-4) }, Tsp { d: scaled(&line, 1.0e3) }, Tsp { d: tiny }, Tsp { d: three }, Tsp { d: line }, Tsp { d: mixed }];
    for instance in instances {
        for seed in 0..4u64 {
            // ant system with the pheromone exponent alpha in {1, 0 (pure heuristic sampling), 0.25, 2}: the greedy tour follows the
            // trails themselves whatever the exponent used for sampling
            for alpha in [1.0, 0.0, 0.25, 2.0] { cases += run(&instance, seed, false, 1.0, alpha); }
            // max-min: initial trails inside, above and below the configured bounds [0.05, 2]
            for tau0 in [1.0, 3.0, 0.01] { cases += run(&instance, seed, true, tau0, 1.0); }
        }
    }
    println!("c19_native_ant_colony: {} generation + update steps checked", cases);
}
