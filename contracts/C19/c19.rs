//! C19 — the pheromone-matrix kernel: "a pheromone update first evaporates EVERY trail by the evaporation factor": `*pm *= f`
//! multiplies every entry by f (bit-exactly), `pm[i][j]` addresses entry i * dimension + j, rows are `dimension` long, a fresh
//! matrix holds the initial value everywhere; an out-of-range row is a panic (documented by the assert in the kernel).
use super::*;
use crate::components::generative::PheromoneMatrix;

fn matrix_kernel(dim: usize) {
    let init: f64 = sym();
    let mut pm = PheromoneMatrix::new(dim, init);
    for i in 0..dim {
        assert!(pm[i].len() == dim, "a row must have `dimension` entries");
        for j in 0..dim { assert!(pm[i][j].to_bits() == init.to_bits(), "a fresh matrix holds the initial value everywhere"); }
    }
    // distinct symbolic entries, written through IndexMut, read back through Index
    let mut vals = [[0.0f64; 3]; 3];
    for i in 0..dim { for j in 0..dim { let v: f64 = sym(); assume(v.is_finite()); vals[i][j] = v; pm[i][j] = v; } }
    for i in 0..dim { for j in 0..dim { assert!(pm[i][j].to_bits() == vals[i][j].to_bits(), "entry (i, j) must be addressed by pm[i][j] alone"); } }
    // the factor is one of a few concrete values selected symbolically: a symbolic factor makes CBMC compare float multipliers
    // entry by entry and does not finish (measured: 400 s at dimension 2)
    let k: u8 = sym();
    assume(k < 4);
    let f = if k == 0 { 1.0 } else if k == 1 { 0.5 } else if k == 2 { 0.75 } else { 0.0 };
    pm *= f;
    for i in 0..dim { for j in 0..dim {
        assert!(pm[i][j].to_bits() == (vals[i][j] * f).to_bits(), "evaporation must multiply EVERY trail by the factor");
    } }
}
/// @verif anchor=PheromoneMatrix::mul_assign bound="dimension 2; all finite entries; factors {1, 0.5, 0.75, 0}"
#[cfg_attr(kani, kani::proof)] #[cfg_attr(kani, kani::unwind(6))]
pub fn c19_matrix_dim2() { matrix_kernel(2) }
/// @verif anchor=PheromoneMatrix::mul_assign tier=thorough bound="dimension 3; all finite entries; factors {1, 0.5, 0.75, 0}"
#[cfg_attr(kani, kani::proof)] #[cfg_attr(kani, kani::unwind(11))]
pub fn c19_matrix_dim3() { matrix_kernel(3) }
