//! C09 — objective values are never NaN / -inf and are ordered soundly.
//! Hoare-triple harnesses on the real `SingleObjective` / `MultiObjective`.  All inputs are full-domain
//! symbolic f64 (all 2^64 bit patterns); harnesses over SingleObjective are loop-free => complete.
use std::cmp::Ordering;

use super::*;
use crate::{problems::objective::IllegalObjective, MultiObjective, SingleObjective};

fn legal(x: f64) -> bool {
    !x.is_nan() && !(x.is_infinite() && x.is_sign_negative())
}

/// contract of `<SingleObjective as TryFrom<f64>>::try_from`:
///   ensures  result is Err(NaN) iff x is NaN; Err(NegativeInfinity) iff x == -inf;
///            otherwise Ok(v) with v.value() bit-identical to x.
/// @verif anchor=SingleObjective::try_from
#[cfg_attr(kani, kani::proof)]
pub fn c09_single_try_from() {
    let x: f64 = sym();
    let r = SingleObjective::try_from(x);
    match r {
        Ok(v) => {
            assert!(legal(x), "try_from accepted an illegal value");
            assert!(v.value().to_bits() == x.to_bits(), "try_from changed the value");
            assert!(f64::from(v).to_bits() == x.to_bits());
            assert!(v.is_finite() == x.is_finite());
        }
        Err(IllegalObjective::NaN) => assert!(x.is_nan(), "try_from rejected a non-NaN as NaN"),
        Err(IllegalObjective::NegativeInfinity) => {
            assert!(x == f64::NEG_INFINITY, "try_from rejected a legal value as -inf")
        }
    }
    vcover!(legal(x));
    vcover!(x.is_nan());
    vcover!(x == f64::NEG_INFINITY);
}

/// contract of `Ord::cmp` / `PartialOrd` / `PartialEq` on constructed values:
///   never panics, agrees with the numeric order of the floats, total, antisymmetric.
/// @verif anchor=SingleObjective::cmp
#[cfg_attr(kani, kani::proof)]
pub fn c09_single_cmp_pairs() {
    let (x, y): (f64, f64) = (sym(), sym());
    assume(legal(x) && legal(y));
    let a = SingleObjective::try_from(x).unwrap();
    let b = SingleObjective::try_from(y).unwrap();
    let c = a.cmp(&b); // must not panic
    assert!((c == Ordering::Less) == (x < y), "cmp disagrees with <");
    assert!((c == Ordering::Greater) == (x > y), "cmp disagrees with >");
    assert!((c == Ordering::Equal) == (x == y), "cmp disagrees with ==");
    assert!(a.partial_cmp(&b) == Some(c), "partial_cmp disagrees with cmp");
    assert!((a == b) == (c == Ordering::Equal), "eq disagrees with cmp");
    assert!((a < b) == (x < y));
    assert!((a <= b) == (x <= y));
    assert!(b.cmp(&a) == c.reverse(), "cmp not antisymmetric");
    assert!(a.cmp(&a) == Ordering::Equal, "cmp not reflexive");
    // min / max never fail and return one of the operands with the right value
    let mn = std::cmp::min(a, b);
    let mx = std::cmp::max(a, b);
    assert!(mn.value() <= mx.value());
    assert!(mn.value() == if x <= y { x } else { y });
    assert!(mx.value() == if x <= y { y } else { x });
    vcover!(c == Ordering::Less);
    vcover!(c == Ordering::Equal);
    vcover!(x == f64::INFINITY && y == f64::INFINITY);
}

/// transitivity over all triples, and sorting three values never fails and yields an ordered result
/// @verif anchor=SingleObjective::cmp
#[cfg_attr(kani, kani::proof)]
#[cfg_attr(kani, kani::unwind(5))]
pub fn c09_single_cmp_triples() {
    let (x, y, z): (f64, f64, f64) = (sym(), sym(), sym());
    assume(legal(x) && legal(y) && legal(z));
    let a = SingleObjective::try_from(x).unwrap();
    let b = SingleObjective::try_from(y).unwrap();
    let c = SingleObjective::try_from(z).unwrap();
    if a.cmp(&b) != Ordering::Greater && b.cmp(&c) != Ordering::Greater {
        assert!(a.cmp(&c) != Ordering::Greater, "cmp not transitive");
    }
    if a.cmp(&b) == Ordering::Equal && b.cmp(&c) == Ordering::Equal {
        assert!(a.cmp(&c) == Ordering::Equal);
    }
    let mut v = [a, b, c];
    // insertion sort through Ord::cmp (std `sort` is exercised natively by the suite; here the
    // comparator is what matters)
    if v[0].cmp(&v[1]) == Ordering::Greater { v.swap(0, 1); }
    if v[1].cmp(&v[2]) == Ordering::Greater { v.swap(1, 2); }
    if v[0].cmp(&v[1]) == Ordering::Greater { v.swap(0, 1); }
    assert!(v[0].value() <= v[1].value() && v[1].value() <= v[2].value(), "sorting by cmp is not ordered");
    let m = *v.iter().min().unwrap();
    assert!(m.value() <= x && m.value() <= y && m.value() <= z);
    vcover!(x < y && y < z);
}

/// default / INFINITY are legal values
/// @verif anchor=SingleObjective::default
#[cfg_attr(kani, kani::proof)]
pub fn c09_single_constants() {
    assert!(legal(SingleObjective::default().value()));
    assert!(legal(SingleObjective::INFINITY.value()));
    assert!(SingleObjective::default().value() == f64::INFINITY);
}

// ---- closure of the arithmetic operators: "objective values obtainable through the public API are
// never NaN or negative infinity".  One harness per operator so that findings are keyed per operator.
/// @verif anchor=SingleObjective::add
#[cfg_attr(kani, kani::proof)]
pub fn c09_single_closure_add() {
    let (x, y): (f64, f64) = (sym(), sym());
    assume(legal(x) && legal(y));
    let a = SingleObjective::try_from(x).unwrap();
    let b = SingleObjective::try_from(y).unwrap();
    let r = a + b;
    assert!(legal(r.value()), "operator + yields NaN or -inf");
}

/// @verif anchor=SingleObjective::sub
#[cfg_attr(kani, kani::proof)]
pub fn c09_single_closure_sub() {
    let (x, y): (f64, f64) = (sym(), sym());
    assume(legal(x) && legal(y));
    let a = SingleObjective::try_from(x).unwrap();
    let b = SingleObjective::try_from(y).unwrap();
    let r = a - b;
    assert!(legal(r.value()), "operator - yields NaN or -inf");
}

/// @verif anchor=SingleObjective::mul
#[cfg_attr(kani, kani::proof)]
pub fn c09_single_closure_mul_scalar() {
    let (x, y): (f64, f64) = (sym(), sym());
    assume(legal(x) && legal(y));
    let a = SingleObjective::try_from(x).unwrap();
    let r = a * y;
    assert!(legal(r.value()), "operator * (scalar) yields NaN or -inf");
}

/// @verif anchor=SingleObjective::div
#[cfg_attr(kani, kani::proof)]
pub fn c09_single_closure_div_scalar() {
    let (x, y): (f64, f64) = (sym(), sym());
    assume(legal(x) && legal(y));
    let a = SingleObjective::try_from(x).unwrap();
    let r = a / y;
    assert!(legal(r.value()), "operator / (scalar) yields NaN or -inf");
}

/// @verif anchor=SingleObjective::neg
#[cfg_attr(kani, kani::proof)]
pub fn c09_single_closure_neg() {
    let x: f64 = sym();
    assume(legal(x));
    let a = SingleObjective::try_from(x).unwrap();
    let r = -a;
    assert!(legal(r.value()), "operator neg yields NaN or -inf");
}

// ---------------------------------------------------------------- MultiObjective (vectors <= 3)
fn sym_vec(n: usize) -> Vec<f64> {
    let mut v = Vec::with_capacity(n);
    for _ in 0..n {
        v.push(sym::<f64>());
    }
    v
}
fn all_legal(v: &[f64]) -> bool {
    let mut ok = true;
    for x in v { ok = ok && legal(*x); }
    ok
}

fn multi_try_from(n: usize) {
    let v = sym_vec(n);
    let r = MultiObjective::try_from(v.clone());
    let r2 = MultiObjective::try_from(&v[..]);
    assert!(r.is_ok() == all_legal(&v), "try_from(Vec) accepts iff every entry is legal");
    assert!(r2.is_ok() == all_legal(&v), "try_from(&[f64]) accepts iff every entry is legal");
    if let Ok(m) = r {
        assert!(m.value().len() == n);
        for i in 0..n {
            assert!(m.value()[i].to_bits() == v[i].to_bits());
        }
    }
}
/// @verif anchor=MultiObjective::try_from tier=quick bound="vector length(s) 0; all f64 values"
#[cfg_attr(kani, kani::proof)] #[cfg_attr(kani, kani::unwind(6))]
pub fn c09_multi_try_from_len0() { multi_try_from(0) }
/// @verif anchor=MultiObjective::try_from tier=quick bound="vector length(s) 1; all f64 values"
#[cfg_attr(kani, kani::proof)] #[cfg_attr(kani, kani::unwind(6))]
pub fn c09_multi_try_from_len1() { multi_try_from(1) }
/// @verif anchor=MultiObjective::try_from tier=quick bound="vector length(s) 2; all f64 values"
#[cfg_attr(kani, kani::proof)] #[cfg_attr(kani, kani::unwind(6))]
pub fn c09_multi_try_from_len2() { multi_try_from(2) }
/// @verif anchor=MultiObjective::try_from tier=quick bound="vector length(s) 3; all f64 values"
#[cfg_attr(kani, kani::proof)] #[cfg_attr(kani, kani::unwind(6))]
pub fn c09_multi_try_from_len3() { multi_try_from(3) }

/// model of Pareto dominance (minimisation) written from the property statement
fn model_cmp(a: &[f64], b: &[f64]) -> Option<Ordering> {
    if a.len() != b.len() {
        return None;
    }
    let (mut all_eq, mut some_lt, mut some_gt) = (true, false, false);
    for i in 0..a.len() {
        if a[i] < b[i] { some_lt = true; all_eq = false; }
        else if a[i] > b[i] { some_gt = true; all_eq = false; }
    }
    if all_eq { Some(Ordering::Equal) }
    else if some_lt && !some_gt { Some(Ordering::Less) }
    else if some_gt && !some_lt { Some(Ordering::Greater) }
    else { None }
}

fn multi_pair(n: usize, m: usize) {
    let (va, vb) = (sym_vec(n), sym_vec(m));
    assume(all_legal(&va) && all_legal(&vb));
    let a = MultiObjective::try_from(va.clone()).unwrap();
    let b = MultiObjective::try_from(vb.clone()).unwrap();
    let c = a.partial_cmp(&b);
    assert!(c == model_cmp(&va, &vb), "partial_cmp is not Pareto dominance");
    assert!(b.partial_cmp(&a) == c.map(|o| o.reverse()), "domination not antisymmetric");
    assert!((c == Some(Ordering::Equal)) == (a == b), "Equal does not agree with ==");
    assert!(a.partial_cmp(&a) == Some(Ordering::Equal), "identical vectors must compare equal");
    if n != m {
        assert!(c.is_none(), "vectors of different length must be incomparable");
    }
    // reachability probes (trivially true where the outcome is impossible for this shape)
    vcover!(n != m || n == 0 || c == Some(Ordering::Less));
    vcover!((n == m && n <= 1) || c.is_none());
}
/// @verif anchor=MultiObjective::partial_cmp tier=quick bound="vector length(s) 1,1; all f64 values"
#[cfg_attr(kani, kani::proof)] #[cfg_attr(kani, kani::unwind(6))]
pub fn c09_multi_pair_1_1() { multi_pair(1, 1) }
/// @verif anchor=MultiObjective::partial_cmp tier=quick bound="vector length(s) 2,2; all f64 values"
#[cfg_attr(kani, kani::proof)] #[cfg_attr(kani, kani::unwind(6))]
pub fn c09_multi_pair_2_2() { multi_pair(2, 2) }
/// @verif anchor=MultiObjective::partial_cmp tier=thorough bound="vector length(s) 3,3; all f64 values"
#[cfg_attr(kani, kani::proof)] #[cfg_attr(kani, kani::unwind(6))]
pub fn c09_multi_pair_3_3() { multi_pair(3, 3) }
/// @verif anchor=MultiObjective::partial_cmp tier=quick bound="vector length(s) 2,3; all f64 values"
#[cfg_attr(kani, kani::proof)] #[cfg_attr(kani, kani::unwind(6))]
pub fn c09_multi_pair_2_3() { multi_pair(2, 3) }
/// @verif anchor=MultiObjective::partial_cmp tier=quick bound="vector length(s) 0,1; all f64 values"
#[cfg_attr(kani, kani::proof)] #[cfg_attr(kani, kani::unwind(6))]
pub fn c09_multi_pair_0_1() { multi_pair(0, 1) }

fn multi_triple(n: usize) {
    let (va, vb, vc) = (sym_vec(n), sym_vec(n), sym_vec(n));
    assume(all_legal(&va) && all_legal(&vb) && all_legal(&vc));
    let a = MultiObjective::try_from(va).unwrap();
    let b = MultiObjective::try_from(vb).unwrap();
    let c = MultiObjective::try_from(vc).unwrap();
    if a < b && b < c {
        assert!(a < c, "domination not transitive");
    }
    if a <= b && b <= c {
        assert!(a <= c, "weak domination not transitive");
    }
    vcover!(a < b && b < c);
}
/// @verif anchor=MultiObjective::partial_cmp tier=quick bound="vector length(s) 2; all f64 values"
#[cfg_attr(kani, kani::proof)] #[cfg_attr(kani, kani::unwind(6))]
pub fn c09_multi_triple_2() { multi_triple(2) }
/// @verif anchor=MultiObjective::partial_cmp tier=thorough bound="vector length(s) 3; all f64 values"
#[cfg_attr(kani, kani::proof)] #[cfg_attr(kani, kani::unwind(6))]
pub fn c09_multi_triple_3() { multi_triple(3) }
