//! C09 — Kani FUNCTION CONTRACT on the real `<SingleObjective as TryFrom<f64>>::try_from` (attributes inserted in place
//! in the scratch copy, see vlib/props.py), proved for all 2^64 inputs by `proof_for_contract` (loop-free: complete).
use std::convert::TryFrom;

use super::*;
use crate::SingleObjective;

/// @verif anchor=SingleObjective::try_from
#[cfg_attr(kani, kani::proof_for_contract(<SingleObjective as TryFrom<f64>>::try_from))]
pub fn c09_contract_try_from() {
    let x: f64 = sym();
    let _ = SingleObjective::try_from(x);
}
