//! C05 — BOUNDED STAND-IN (not a proof) at COMPONENT level: "every access that can change the solution leaves the individual
//! unevaluated": components that edit solutions in place (mutation, boundary repair, swarm moves — State-based bodies neither
//! verifier reaches) are run on populations of EVALUATED individuals; afterwards every individual that still reports an objective
//! value must report exactly f(its current solution).  (The `Individual` methods themselves are the Verus / Kani units.)
use super::*;
use crate::{
    components::{
        boundary::{CompleteOneTailedNormalCorrection, Mirror, Saturation, Toroidal},
        mutation::{BitFlipMutation, NormalMutation, PartialRandomSpread, ScrambleMutation, SwapMutation, UniformMutation},
    },
    problems::{LimitedVectorProblem, ObjectiveFunction, Problem, VectorProblem},
    state::{common::Populations, random::Random},
    Component, Individual, SingleObjective, State,
};

pub struct Plane;
impl Problem for Plane {
    type Encoding = Vec<f64>;
    type Objective = SingleObjective;
    fn name(&self) -> &str { "Plane" }
}
impl VectorProblem for Plane {
    type Element = f64;
    fn dimension(&self) -> usize { 3 }
}
impl LimitedVectorProblem for Plane {
    fn domain(&self) -> Vec<std::ops::Range<f64>> { vec![-1.0..1.0, 0.0..2.0, -5.0..-4.0] }
}
fn plane(x: &[f64]) -> f64 { 10.0 + x.iter().enumerate().map(|(i, v)| (i + 1) as f64 * v).sum::<f64>() }
impl ObjectiveFunction for Plane {
    fn objective(&self, s: &Vec<f64>) -> SingleObjective { SingleObjective::try_from(plane(s)).unwrap() }
}
pub struct Bits6;
impl Problem for Bits6 {
    type Encoding = Vec<bool>;
    type Objective = SingleObjective;
    fn name(&self) -> &str { "Bits6" }
}
impl VectorProblem for Bits6 {
    type Element = bool;
    fn dimension(&self) -> usize { 6 }
}
fn ones(b: &[bool]) -> f64 { b.iter().enumerate().map(|(i, v)| if *v { (i + 1) as f64 } else { 0.0 }).sum() }
pub struct Perm5;
impl Problem for Perm5 {
    type Encoding = Vec<usize>;
    type Objective = SingleObjective;
    fn name(&self) -> &str { "Perm5" }
}
impl VectorProblem for Perm5 {
    type Element = usize;
    fn dimension(&self) -> usize { 5 }
}
fn weighted(p: &[usize]) -> f64 { p.iter().enumerate().map(|(i, v)| ((i + 1) * (v + 1)) as f64).sum() }

fn check<P: Problem + 'static>(problem: &P, name: &str, c: &dyn Component<P>, solutions: &[P::Encoding], f: &dyn Fn(&P::Encoding) -> f64, seed: u64) -> u64
where P::Encoding: Clone + std::fmt::Debug, P: Problem<Objective = SingleObjective>,
{
    let mut state: State<P> = State::new();
    state.insert(Random::new(seed));
    state.insert(Populations::<P>::new());
    state.populations_mut().push(solutions.iter().map(|s| Individual::new(s.clone(), SingleObjective::try_from(f(s)).unwrap())).collect());
    c.init(problem, &mut state).expect("init must not fail");
    c.execute(problem, &mut state).expect("the component must not fail on a valid population");
    let pops = state.populations();
    for (k, ind) in pops.current().iter().enumerate() {
        if ind.is_evaluated() && ind.objective().value() != f(ind.solution()) {
            eprintln!("COUNTEREXAMPLE op={name} seed={seed}: individual {k} (input at that position: {:?}) is now {:?} and reports {} although f(solution) = {}",
                      solutions.get(k), ind.solution(), ind.objective().value(), f(ind.solution()));
            panic!("a component left a stale objective value on a changed solution");
        }
    }
    1
}

// @native-harness
pub fn c05_native_components_keep_objectives_fresh() {
    let mut cases = 0u64;
    // coordinates relative to each domain: inside, on the bounds, a hair outside, clearly outside
    let rel = [-3.5, -1.0, -1.0e-9, -1.0e-12, 0.0, 0.3, 1.0, 1.0 + 1.0e-12, 1.0 + 1.0e-9, 1.0 + 1.0e-6, 2.5];
    let dom = Plane.domain();
    let mut real: Vec<Vec<f64>> = Vec::new();
    for a in rel { for b in [0.3, 1.0 + 1.0e-9] { real.push(vec![dom[0].start + a * 2.0, dom[1].start + b * 2.0, dom[2].start + 0.5]); } }
    for seed in 0..8u64 {
        let ops: Vec<(&str, Box<dyn Component<Plane>>)> = vec![
            ("Saturation", Saturation::new()), ("Toroidal", Toroidal::new()), ("Mirror", Mirror::new()), ("CompleteOneTailedNormalCorrection", CompleteOneTailedNormalCorrection::new()),
            ("NormalMutation(rm=0.5)", NormalMutation::new(0.1, 0.5)), ("UniformMutation(rm=0.5)", UniformMutation::new(0.1, 0.5)), ("PartialRandomSpread(rm=0.5)", PartialRandomSpread::new(0.5)),
            ("NormalMutation(tiny)", NormalMutation::new(1.0e-12, 1.0)),
        ];
        for (name, op) in &ops { cases += check(&Plane, name, op.as_ref(), &real, &|s: &Vec<f64>| plane(s), seed); }
        let bits: Vec<Vec<bool>> = (0..8u32).map(|m| (0..6).map(|i| m >> (i % 3) & 1 == 1).collect()).collect();
        let bop: Box<dyn Component<Bits6>> = BitFlipMutation::new(0.3);
        cases += check(&Bits6, "BitFlipMutation(rm=0.3)", bop.as_ref(), &bits, &|s: &Vec<bool>| ones(s), seed);
        let perms: Vec<Vec<usize>> = vec![vec![0, 1, 2, 3, 4], vec![4, 3, 2, 1, 0], vec![2, 0, 4, 1, 3]];
        let pops: Vec<(&str, Box<dyn Component<Perm5>>)> = vec![("SwapMutation(2)", SwapMutation::new(2).unwrap()), ("ScrambleMutation(rm=0.5)", ScrambleMutation::new(0.5))];
        for (name, op) in &pops { cases += check(&Perm5, name, op.as_ref(), &perms, &|s: &Vec<usize>| weighted(s), seed); }
    }
    // recombination drivers on EVALUATED parents with distinct objective values: whatever is passed through, recombined, dropped
    // or re-ordered, an individual that reports a value reports the value of ITS solution (crossover probabilities 0, strictly
    // between 0 and 1, and 1; one or both children inserted; even and odd numbers of parents)
    {
        use crate::components::recombination::{ArithmeticCrossover, CycleCrossover, NPointCrossover, UniformCrossover};
        for seed in 0..12u64 {
            for parents in [2usize, 5, 6, 9] {
                let real: Vec<Vec<f64>> = (0..parents).map(|k| vec![dom[0].start + 0.1 * k as f64, dom[1].start + 0.07 * (k * k) as f64, dom[2].start + 0.5]).collect();
                let perms: Vec<Vec<usize>> = (0..parents).map(|k| { let mut p = vec![0, 1, 2, 3, 4]; p.rotate_left(k % 5); if k >= 5 { p.swap(0, 1); } p }).collect();
                for pc in [0.0, 0.3, 0.5, 0.8, 1.0] {
                    for both in [false, true] {
                        let ops: Vec<(String, Box<dyn Component<Plane>>)> = vec![
                            (format!("UniformCrossover(pc={pc}, insert_both={both})"), UniformCrossover::new(pc, both)),
                            (format!("NPointCrossover(1, pc={pc}, insert_both={both})"), NPointCrossover::new(1, pc, both)),
                            (format!("ArithmeticCrossover(pc={pc}, insert_both={both})"), ArithmeticCrossover::new(pc, both)),
                        ];
                        for (name, op) in &ops { cases += check(&Plane, name, op.as_ref(), &real, &|s: &Vec<f64>| plane(s), seed); }
                        let cop: Box<dyn Component<Perm5>> = CycleCrossover::new(pc, both);
                        cases += check(&Perm5, &format!("CycleCrossover(pc={pc}, insert_both={both})"), cop.as_ref(), &perms, &|s: &Vec<usize>| weighted(s), seed);
                    }
                }
            }
        }
    }
    // swarm moves on EVALUATED particles, with several particles tied for the best objective value at different positions
    // (the black hole is "the best particle": whatever the component takes it to be, a particle that reports a value afterwards
    // reports the value of the position it is at)
    {
        use crate::components::swarm::bh::BlackHoleParticlesUpdate;
        let tied: Vec<Vec<f64>> = vec![vec![0.5, 0.25, -4.5], vec![0.75, 1.5, -4.25], vec![0.0, 0.5, -4.5], vec![-0.5, 0.75, -4.5], vec![0.25, 1.0, -4.0]];
        let unique: Vec<Vec<f64>> = vec![vec![0.5, 0.25, -4.5], vec![0.75, 1.5, -4.25], vec![0.25, 1.0, -4.0]];
        for seed in 0..12u64 {
            for pop in [&tied, &unique] {
                let op: Box<dyn Component<Plane>> = BlackHoleParticlesUpdate::new();
                cases += check(&Plane, "BlackHoleParticlesUpdate", op.as_ref(), pop, &|s: &Vec<f64>| plane(s), seed);
            }
        }
    }
    println!("c05_native_components_keep_objectives_fresh: {} component executions checked", cases);
}
