//! C05 — copy paths and collection helpers of `Individual` as bit-precise Hoare triples (complements the unbounded
//! Verus unit, which cannot enter `Clone::clone_from` and the iterator-based helpers).
use super::*;
use crate::{
    population::{AsSolutionsMut, IntoIndividuals, IntoSolutions},
    Individual,
};

type I = Individual<ScalarProblem>;

fn sym_maybe_evaluated() -> I {
    let t: u8 = sym();
    if sym::<bool>() { Individual::new(t, sym_objective()) } else { Individual::new_unevaluated(t) }
}

/// every copy path keeps solution and objective together: `clone`, `clone_from` (default or overridden),
/// and element-wise copies of collections
/// @verif anchor=Individual::clone_from
#[cfg_attr(kani, kani::proof)] #[cfg_attr(kani, kani::unwind(4))]
pub fn c05_clone_from() {
    let src = sym_maybe_evaluated();
    let mut dst = sym_maybe_evaluated();
    dst.clone_from(&src);
    assert!(dst.solution() == src.solution(), "clone_from: solution not copied");
    assert!(dst.get_objective() == src.get_objective(), "clone_from: objective does not belong to the copied solution");
    let c = src.clone();
    assert!(c.solution() == src.solution() && c.get_objective() == src.get_objective(), "clone separates solution and objective");
    assert!(c == src, "a copy must equal its source");
    vcover!(dst.is_evaluated());
    vcover!(!src.is_evaluated());
}

/// the same contracts the Verus unit proves unboundedly, as loop-free bit-precise triples over the full domain (tag byte x
/// all legal objective values x evaluated/unevaluated): they decide changed code that Verus cannot enter (e.g. std
/// `Option` combinators with capturing closures)
/// @verif anchor=Individual::evaluate_with bound="complete: loop-free, all tag bytes x all legal objective values"
#[cfg_attr(kani, kani::proof)]
pub fn c05_evaluate_with() {
    let mut i = sym_maybe_evaluated();
    let tag = *i.solution();
    let value = sym_objective();
    let mut calls = 0u32;
    let mut seen = 0u8;
    i.evaluate_with(|s| { calls += 1; seen = *s; value });
    assert!(calls == 1, "evaluate_with must call the objective function exactly once");
    assert!(seen == tag, "the objective function must see the individual's current solution");
    assert!(*i.solution() == tag, "evaluate_with changed the solution");
    assert!(i.is_evaluated() && i.get_objective() == Some(&value), "after evaluate_with the individual must carry exactly f(solution)");
    assert!(*i.objective() == value, "objective() must report f(solution)");
}
/// @verif anchor=Individual::solution_mut bound="complete: loop-free, all tag bytes x all legal objective values"
#[cfg_attr(kani, kani::proof)]
pub fn c05_mutating_accessors() {
    let mut i = sym_maybe_evaluated();
    let tag = *i.solution();
    {
        let s = i.solution_mut();
        assert!(*s == tag, "solution_mut must hand out the current solution");
        *s = sym();
    }
    assert!(!i.is_evaluated() && i.get_objective().is_none(), "an access that can change the solution must leave the individual unevaluated");
    // set_objective stores the value for the unchanged solution and reports whether one was there before
    let mut j = sym_maybe_evaluated();
    let (tag_j, was) = (*j.solution(), j.is_evaluated());
    let v = sym_objective();
    let r = j.set_objective(v);
    assert!(r == was, "set_objective must report whether the individual was evaluated before");
    assert!(*j.solution() == tag_j && j.get_objective() == Some(&v), "set_objective must store the value for the unchanged solution");
    // readers and constructors
    let k = sym_maybe_evaluated();
    let (tag_k, obj_k) = (*k.solution(), k.get_objective().copied());
    assert!(k.is_evaluated() == obj_k.is_some(), "is_evaluated disagrees with get_objective");
    assert!(k.into_solution() == tag_k, "into_solution must return the solution");
    let v2 = sym_objective();
    let n = I::new(tag_k, v2);
    assert!(*n.solution() == tag_k && n.get_objective() == Some(&v2), "new must keep solution and objective together");
    let u = I::new_unevaluated(tag_k);
    assert!(*u.solution() == tag_k && !u.is_evaluated(), "new_unevaluated must be unevaluated");
}

/// @verif anchor=Individual::clone_from bound="vector of 2 individuals"
#[cfg_attr(kani, kani::proof)] #[cfg_attr(kani, kani::unwind(5))]
pub fn c05_vec_clone_from() {
    let src = vec![sym_maybe_evaluated(), sym_maybe_evaluated()];
    let mut dst = vec![sym_maybe_evaluated(), sym_maybe_evaluated()];
    dst.clone_from(&src);
    for i in 0..2 {
        assert!(dst[i].solution() == src[i].solution() && dst[i].get_objective() == src[i].get_objective(),
                "Vec::clone_from: an element carries an objective that does not belong to its solution");
    }
}

/// "collection helper hands out &mut solutions only through solution_mut": afterwards nobody is evaluated
/// @verif anchor=population::as_solutions_mut bound="population size 2"
#[cfg_attr(kani, kani::proof)] #[cfg_attr(kani, kani::unwind(5))]
pub fn c05_as_solutions_mut() {
    let mut pop = vec![sym_maybe_evaluated(), sym_maybe_evaluated()];
    let tags = [*pop[0].solution(), *pop[1].solution()];
    {
        let sols = pop.as_solutions_mut();
        assert!(sols.len() == 2 && *sols[0] == tags[0] && *sols[1] == tags[1], "as_solutions_mut: wrong solutions handed out");
    }
    assert!(!pop[0].is_evaluated() && !pop[1].is_evaluated(), "mutable access to solutions must leave individuals unevaluated");
}

/// @verif anchor=population::into_individuals bound="2 solutions"
#[cfg_attr(kani, kani::proof)] #[cfg_attr(kani, kani::unwind(5))]
pub fn c05_into_individuals() {
    let (a, b): (u8, u8) = (sym(), sym());
    let pop: Vec<I> = vec![a, b].into_individuals();
    assert!(pop.len() == 2 && *pop[0].solution() == a && *pop[1].solution() == b);
    assert!(!pop[0].is_evaluated() && !pop[1].is_evaluated(), "new individuals must be created unevaluated");
    let back = pop.into_solutions();
    assert!(back.len() == 2 && back[0] == a && back[1] == b);
}

/// equality compares both fields
/// @verif anchor=Individual::eq
#[cfg_attr(kani, kani::proof)] #[cfg_attr(kani, kani::unwind(4))]
pub fn c05_eq() {
    let (x, y) = (sym_maybe_evaluated(), sym_maybe_evaluated());
    assert!((x == y) == (x.solution() == y.solution() && x.get_objective() == y.get_objective()));
}
