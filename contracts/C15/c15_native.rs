//! C15 — BOUNDED STAND-IN (not a proof) for the compressed export kernel `CompressedLog::from`, which neither verifier
//! reaches (CBMC does not finish on a single concrete two-step log; Verus rejects the `&mut`-capturing closure).
//! Exhaustive native enumeration on the real code (real std HashMap): all logs of <= 3 steps, each step an ordered
//! sequence of <= 3 distinct names out of 4.  Injected as a child module of logging::log (private items).
use super::*;

fn entry(name: &'static str, v: u32) -> Entry { Entry { name, value: Box::new(v) } }

fn sequences() -> Vec<Vec<&'static str>> {
    let names = ["a", "b", "c", "d"];
    let mut out: Vec<Vec<&'static str>> = vec![vec![]];
    let mut frontier: Vec<Vec<&'static str>> = vec![vec![]];
    for _ in 0..3 {
        let mut next = Vec::new();
        for s in &frontier {
            for n in names {
                if !s.contains(&n) { let mut t = s.clone(); t.push(n); next.push(t); }
            }
        }
        out.extend(next.iter().cloned());
        frontier = next;
    }
    out
}

fn check(steps: &[&Vec<&'static str>]) {
    let mut log = Log::new();
    let mut v = 0u32;
    for names in steps {
        let mut s = Step::default();
        for n in names.iter() { s.push(entry(n, v)); v += 1; }
        log.push(s);
    }
    let clog = CompressedLog::from(&log);
    let fail = |why: &str| -> ! { eprintln!("COUNTEREXAMPLE steps={:?}: {}", steps, why); panic!("compressed export is wrong") };
    for i in 0..clog.names.len() { for j in 0..i { if clog.names[i] == clog.names[j] { fail("a name occurs twice in the name table") } } }
    if clog.entries.len() != steps.len() { fail("one compressed step per step") }
    for (si, step) in log.steps().iter().enumerate() {
        if clog.entries[si].len() != step.entries().len() { fail("an entry was dropped or duplicated in the export") }
        for e in step.entries() {
            let key = match clog.names.iter().position(|n| *n == e.name) { Some(k) => k, None => fail("an entry's name is missing from the name table") };
            match clog.entries[si].get(&key) {
                Some(val) => {
                    if !std::ptr::eq(*val as *const dyn DynSerialize as *const u8, &e.value as *const Box<dyn DynSerialize + Send> as *const u8) {
                        fail("the export maps a name's key to another entry's value")
                    }
                }
                None => fail("the export has no value under the key of an entry's name"),
            }
        }
    }
}

// @native-harness
pub fn c15_native_compressed_enumeration() {
    let seqs = sequences();
    let mut n = 0u64;
    for a in &seqs {
        check(&[a]);
        for b in &seqs {
            check(&[a, b]);
            for c in &seqs { check(&[a, b, c]); n += 1; }
        }
    }
    println!("c15_native_compressed_enumeration: {} three-step logs (plus all one- and two-step prefixes) checked", n);
}
