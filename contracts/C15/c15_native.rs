//! C15 — BOUNDED STAND-IN (not a proof) for the compressed export kernel `CompressedLog::from`, which neither verifier
//! reaches (CBMC does not finish on a single concrete two-step log; Verus rejects the `&mut`-capturing closure).
//! Exhaustive native enumeration on the real code (real std HashMap): all logs of <= 3 steps, each step an ordered
//! sequence of <= 3 distinct names out of 4.  Injected as a child module of logging::log (private items).
use super::*;

fn entry(name: &'static str, v: u32) -> Entry { Entry { name, value: Box::new(v) } }

fn sequences() -> Vec<Vec<&'static str>> {
    let names = ["a", "b", "c", "d"];
    let mut out: Vec<Vec<&'static str>> = vec![vec![]];
    let mut frontier: Vec<Vec<&'static str>> = vec![vec![]];
    for _ in 0..3 {
        let mut next = Vec::new();
        for s in &frontier {
            for n in names {
                if !s.contains(&n) { let mut t = s.clone(); t.push(n); next.push(t); }
            }
        }
        out.extend(next.iter().cloned());
        frontier = next;
    }
    out
}

fn check(steps: &[&Vec<&'static str>]) {
    let mut log = Log::new();
    let mut v = 0u32;
    for names in steps {
        let mut s = Step::default();
        for n in names.iter() { s.push(entry(n, v)); v += 1; }
        log.push(s);
    }
    let clog = CompressedLog::from(&log);
    let fail = |why: &str| -> ! { eprintln!("COUNTEREXAMPLE steps={:?}: {}", steps, why); panic!("compressed export is wrong") };
    for i in 0..clog.names.len() { for j in 0..i { if clog.names[i] == clog.names[j] { fail("a name occurs twice in the name table") } } }
    if clog.entries.len() != steps.len() { fail("one compressed step per step") }
    for (si, step) in log.steps().iter().enumerate() {
        if clog.entries[si].len() != step.entries().len() { fail("an entry was dropped or duplicated in the export") }
        for e in step.entries() {
            let key = match clog.names.iter().position(|n| *n == e.name) { Some(k) => k, None => fail("an entry's name is missing from the name table") };
            match clog.entries[si].get(&key) {
                Some(val) => {
                    if !std::ptr::eq(*val as *const dyn DynSerialize as *const u8, &e.value as *const Box<dyn DynSerialize + Send> as *const u8) {
                        fail("the export maps a name's key to another entry's value")
                    }
                }
                None => fail("the export has no value under the key of an entry's name"),
            }
        }
    }
}

// @native-harness
pub fn c15_native_compressed_enumeration() {
    let seqs = sequences();
    let mut n = 0u64;
    for a in &seqs {
        check(&[a]);
        for b in &seqs {
            check(&[a, b]);
            for c in &seqs { check(&[a, b, c]); n += 1; }
        }
    }
    println!("c15_native_compressed_enumeration: {} three-step logs (plus all one- and two-step prefixes) checked", n);
}

// ------------------------------------------------------------------------------------------------------------------
// BOUNDED STAND-IN for the end-to-end record: logger in a loop -> recorded steps -> JSON export -> decoded steps.
use std::collections::BTreeMap;

use better_any::TidAble;
use serde_json::{json, Value};

use crate::{
    conditions::{EveryN, LessThanN},
    lens::ValueOf,
    logging::Logger,
    state::common::{Evaluations, Iterations, Progress},
    Configuration, Problem as _,
};

#[derive(Clone, serde::Serialize, better_any::Tid)]
pub struct AbsentState(pub u32);
impl crate::CustomState<'_> for AbsentState {}

pub struct Dummy;
impl crate::Problem for Dummy {
    type Encoding = ();
    type Objective = crate::SingleObjective;
    fn name(&self) -> &str { "Dummy" }
}
type Decoded = Vec<BTreeMap<String, Value>>;

fn decode_export(export: &Value) -> Decoded {
    let names: Vec<String> = export["names"].as_array().unwrap().iter().map(|n| n.as_str().unwrap().to_string()).collect();
    export["entries"].as_array().unwrap().iter().map(|step| {
        step.as_object().unwrap().iter().map(|(k, v)| (names[k.parse::<usize>().unwrap()].clone(), v.clone())).collect()
    }).collect()
}
fn flatten_log(raw: &Value) -> Decoded {
    raw.as_array().unwrap().iter().map(|step| {
        step.as_array().unwrap().iter().map(|e| (e["name"].as_str().unwrap().to_string(), e["value"].clone())).collect()
    }).collect()
}

/// one configuration: `p_eval` / `p_prog` are the periods of the two rules (0 = rule absent); `dup` adds a second rule for
/// Evaluations (same name: the first rule wins); `missing` adds a rule whose source state does not exist (explicit null);
/// `iter_rule` adds a rule logging the iteration counter itself every 2nd iteration; `scoped` runs the logger inside a `Scope`
/// (as the local search nested in the shipped ILS templates does): the log configuration lives in the enclosing state and must
/// still be there, and be used, in every later pass
fn logger_case(n: u32, p_eval: u32, p_prog: u32, dup: bool, missing: bool, iter_rule: bool, scoped: bool) {
    let iterations = std::any::type_name::<Iterations>();
    let evaluations = std::any::type_name::<Evaluations>();
    let progress = std::any::type_name::<Progress<ValueOf<Iterations>>>();
    let absent = std::any::type_name::<AbsentState>();
    let config = Configuration::<Dummy>::builder()
        .while_(LessThanN::iterations(n), |b| { let b = b.debug(|_, state| *state.borrow_value_mut::<Evaluations>() += 3); if scoped { b.scope_(|b| b.do_(Logger::new())) } else { b.do_(Logger::new()) } })
        .build();
    let state = config.optimize_with(&Dummy, |state| {
        state.insert(Evaluations(0));
        state.configure_log(|log| {
            // a rule that logs the iteration counter itself (registered first): a fired trigger, even if nothing else fires
            if iter_rule { log.with_auto::<Iterations>(EveryN::iterations(2)); }
            if p_eval > 0 { log.with_auto::<Evaluations>(EveryN::iterations(p_eval)); }
            if p_prog > 0 { log.with_auto::<Progress<ValueOf<Iterations>>>(EveryN::iterations(p_prog)); }
            if dup { log.with_auto::<Evaluations>(EveryN::iterations(1)); }
            if missing { log.with_auto::<AbsentState>(EveryN::iterations(2)); }
            Ok(())
        })
    }).expect("run must succeed");
    // expected steps, computed independently: one step per logger execution in which at least one trigger fires
    let mut expected: Decoded = Vec::new();
    for i in 0..n {
        let mut step = BTreeMap::new();
        let fires = |p: u32| p > 0 && i % p == 0;
        if fires(p_eval) || dup { step.insert(evaluations.to_string(), json!(3 * (i + 1))); }
        if fires(p_prog) { step.insert(progress.to_string(), json!(f64::from(i) / f64::from(n))); }
        if missing && i % 2 == 0 { step.insert(absent.to_string(), Value::Null); }
        if !step.is_empty() || (iter_rule && i % 2 == 0) { step.insert(iterations.to_string(), json!(i)); expected.push(step); }
    }
    let fail = |why: &str, got: &Decoded| -> ! {
        eprintln!("COUNTEREXAMPLE n={n} p_eval={p_eval} p_prog={p_prog} dup={dup} missing={missing} iterations_rule={iter_rule} logger_in_scope={scoped}: {why}\n got      {got:?}\n expected {expected:?}");
        panic!("experiment record is not exact")
    };
    let raw = flatten_log(&serde_json::to_value(&*state.log()).unwrap());
    if raw != expected { fail("the recorded steps differ from the executions in which a trigger fired", &raw) }
    // iteration entry first in every step
    for step in serde_json::to_value(&*state.log()).unwrap().as_array().unwrap() {
        if step.as_array().unwrap()[0]["name"].as_str().unwrap() != iterations { fail("the iteration count is not the first entry of a step", &raw) }
    }
    let path = std::env::temp_dir().join(format!("verif_c15_{}_{}.json", std::process::id(), n * 1000 + p_eval * 100 + p_prog * 10 + dup as u32 * 4 + missing as u32 * 2 + iter_rule as u32 + 100000 * scoped as u32));
    state.log().to_json(&path).unwrap();
    let export: Value = serde_json::from_reader(std::fs::File::open(&path).unwrap()).unwrap();
    let _ = std::fs::remove_file(&path);
    let decoded = decode_export(&export);
    if decoded != expected { fail("the JSON export does not decode to the recorded steps", &decoded) }
    // CBOR export: decoded with ciborium into its generic value type, converted to the same shape
    let path = path.with_extension("cbor");
    state.log().to_cbor(&path).unwrap();
    let cbor: ciborium::value::Value = ciborium::de::from_reader(std::fs::File::open(&path).unwrap()).unwrap();
    let _ = std::fs::remove_file(&path);
    let decoded = decode_cbor(&cbor);
    if decoded != expected { fail("the CBOR export does not decode to the recorded steps", &decoded) }
}
fn cbor_scalar(v: &ciborium::value::Value) -> Value {
    use ciborium::value::Value as C;
    match v {
        C::Integer(i) => json!(i128::from(*i) as i64),
        C::Float(f) => json!(*f),
        C::Null => Value::Null,
        C::Bool(b) => json!(*b),
        C::Text(t) => json!(t),
        other => panic!("unexpected CBOR value {other:?}"),
    }
}
fn decode_cbor(export: &ciborium::value::Value) -> Decoded {
    use ciborium::value::Value as C;
    let top = match export { C::Map(m) => m, _ => panic!("CBOR export is not a map") };
    let field = |name: &str| top.iter().find(|(k, _)| matches!(k, C::Text(t) if t == name)).map(|(_, v)| v).unwrap_or_else(|| panic!("CBOR export has no field {name}"));
    let names: Vec<String> = match field("names") { C::Array(a) => a.iter().map(|n| match n { C::Text(t) => t.clone(), _ => panic!("name is not text") }).collect(), _ => panic!("names is not an array") };
    match field("entries") {
        C::Array(steps) => steps.iter().map(|step| match step {
            C::Map(m) => m.iter().map(|(k, v)| {
                let idx = match k { C::Integer(i) => i128::from(*i) as usize, _ => panic!("entry key is not an integer") };
                (names[idx].clone(), cbor_scalar(v))
            }).collect(),
            _ => panic!("step is not a map"),
        }).collect(),
        _ => panic!("entries is not an array"),
    }
}

// @native-harness
pub fn c15_native_logger_json_roundtrip() {
    let mut cases = 0u64;
    for n in [0u32, 1, 5, 6] {
        for p_eval in 0..=3u32 {
            for p_prog in 0..=3u32 {
                for dup in [false, true] {
                    for missing in [false, true] { for iter_rule in [false, true] { for scoped in [false, true] { logger_case(n, p_eval, p_prog, dup, missing, iter_rule, scoped); cases += 1; } } }
                }
            }
        }
    }
    println!("c15_native_logger_json_roundtrip: {} logger configurations checked", cases);
}
