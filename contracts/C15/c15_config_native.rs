//! C15 — BOUNDED STAND-IN (not a proof) for the configuration export (serde + erased_serde + ron: out of reach of both
//! verifiers): "every configuration, including every shipped template, can be serialised, and the serialisation names every
//! component with its parameter values and nesting, so configurations that differ in structure or parameter values serialise
//! differently and a clone serialises identically".  Native run over the shipped templates (all except the two ACO
//! templates, whose parameter structs have private fields and need a TSP instance) with two parameter sets each, plus
//! hand-built configurations that differ only in nesting.
use super::*;
use crate::{
    conditions::{Condition, LessThanN},
    configuration::Configuration,
    heuristics::*,
    problems::{LimitedVectorProblem, Problem, VectorProblem},
    SingleObjective,
};

pub struct RealP;
impl Problem for RealP {
    type Encoding = Vec<f64>;
    type Objective = SingleObjective;
    fn name(&self) -> &str { "RealP" }
}
impl VectorProblem for RealP {
    type Element = f64;
    fn dimension(&self) -> usize { 3 }
}
impl LimitedVectorProblem for RealP {
    fn domain(&self) -> Vec<std::ops::Range<f64>> { vec![-1.0..1.0; 3] }
}
pub struct PermP;
impl Problem for PermP {
    type Encoding = Vec<usize>;
    type Objective = SingleObjective;
    fn name(&self) -> &str { "PermP" }
}
impl VectorProblem for PermP {
    type Element = usize;
    fn dimension(&self) -> usize { 5 }
}
pub struct BitP;
impl Problem for BitP {
    type Encoding = Vec<bool>;
    type Objective = SingleObjective;
    fn name(&self) -> &str { "BitP" }
}
impl VectorProblem for BitP {
    type Element = bool;
    fn dimension(&self) -> usize { 5 }
}

fn ser<P: Problem>(c: &Configuration<P>) -> String {
    ron::ser::to_string_pretty(c.heuristic(), ron::ser::PrettyConfig::default().struct_names(true)).expect("a configuration could not be serialised")
}
fn cond<P: Problem>(n: u32) -> Box<dyn Condition<P>> { LessThanN::iterations(n) }

/// `variants[v]` builds the template with parameter set v (0 = base; every other v differs from the base in exactly one value)
fn check<P: Problem>(name: &str, variants: Vec<Configuration<P>>, needles: &[&str]) -> u64 {
    let texts: Vec<String> = variants.iter().map(ser).collect();
    for (v, c) in variants.iter().enumerate() {
        if ser(&c.clone()) != texts[v] { eprintln!("COUNTEREXAMPLE template {name} variant {v}: a clone serialises differently"); panic!("configuration export is not exact") }
        if ser(c) != texts[v] { eprintln!("COUNTEREXAMPLE template {name} variant {v}: serialising twice gives different text"); panic!("configuration export is not exact") }
    }
    for v in 1..texts.len() {
        if texts[v] == texts[0] {
            eprintln!("COUNTEREXAMPLE template {name}: variant {v} differs from the base in a parameter value but serialises identically");
            panic!("configurations that differ in a parameter value must serialise differently")
        }
    }
    for n in needles {
        if !texts[0].contains(n) { eprintln!("COUNTEREXAMPLE template {name}: the export does not name `{n}`\n{}", texts[0]); panic!("the serialisation must name every component") }
    }
    variants.len() as u64
}

// @native-harness
pub fn c15_native_config_serialisation() {
    let mut cases = 0u64;
    // ---- shipped templates: base parameters and one-value variations (including the termination bound)
    cases += check("real_ga", vec![
        ga::real_ga::<RealP>(ga::RealProblemParameters { population_size: 10, tournament_size: 3, pm: 0.5, deviation: 0.1, pc: 0.8 }, cond(7)).unwrap(),
        ga::real_ga::<RealP>(ga::RealProblemParameters { population_size: 11, tournament_size: 3, pm: 0.5, deviation: 0.1, pc: 0.8 }, cond(7)).unwrap(),
        ga::real_ga::<RealP>(ga::RealProblemParameters { population_size: 10, tournament_size: 4, pm: 0.5, deviation: 0.1, pc: 0.8 }, cond(7)).unwrap(),
        ga::real_ga::<RealP>(ga::RealProblemParameters { population_size: 10, tournament_size: 3, pm: 0.25, deviation: 0.1, pc: 0.8 }, cond(7)).unwrap(),
        ga::real_ga::<RealP>(ga::RealProblemParameters { population_size: 10, tournament_size: 3, pm: 0.5, deviation: 0.2, pc: 0.8 }, cond(7)).unwrap(),
        ga::real_ga::<RealP>(ga::RealProblemParameters { population_size: 10, tournament_size: 3, pm: 0.5, deviation: 0.1, pc: 0.7 }, cond(7)).unwrap(),
        ga::real_ga::<RealP>(ga::RealProblemParameters { population_size: 10, tournament_size: 3, pm: 0.5, deviation: 0.1, pc: 0.8 }, cond(8)).unwrap(),
    ], &["Tournament", "NormalMutation", "UniformCrossover", "LessThanN", "Loop", "Branch", "PopulationEvaluator"]);
    cases += check("binary_ga", vec![
        ga::binary_ga::<BitP>(ga::BinaryProblemParameters { population_size: 10, tournament_size: 3, rm: 0.1, pc: 0.8, pm: 0.5 }, cond(7)).unwrap(),
        ga::binary_ga::<BitP>(ga::BinaryProblemParameters { population_size: 10, tournament_size: 3, rm: 0.2, pc: 0.8, pm: 0.5 }, cond(7)).unwrap(),
        ga::binary_ga::<BitP>(ga::BinaryProblemParameters { population_size: 10, tournament_size: 3, rm: 0.1, pc: 0.8, pm: 0.6 }, cond(7)).unwrap(),
    ], &["BitFlipMutation", "Tournament"]);
    cases += check("real_pso", vec![
        pso::real_pso::<RealP>(pso::RealProblemParameters { num_particles: 5, start_weight: 0.9, end_weight: 0.4, c_one: 1.0, c_two: 2.0, v_max: 1.0 }, cond(7)).unwrap(),
        pso::real_pso::<RealP>(pso::RealProblemParameters { num_particles: 5, start_weight: 0.8, end_weight: 0.4, c_one: 1.0, c_two: 2.0, v_max: 1.0 }, cond(7)).unwrap(),
        pso::real_pso::<RealP>(pso::RealProblemParameters { num_particles: 5, start_weight: 0.9, end_weight: 0.3, c_one: 1.0, c_two: 2.0, v_max: 1.0 }, cond(7)).unwrap(),
        pso::real_pso::<RealP>(pso::RealProblemParameters { num_particles: 5, start_weight: 0.9, end_weight: 0.4, c_one: 1.5, c_two: 2.0, v_max: 1.0 }, cond(7)).unwrap(),
        pso::real_pso::<RealP>(pso::RealProblemParameters { num_particles: 5, start_weight: 0.9, end_weight: 0.4, c_one: 1.0, c_two: 2.5, v_max: 1.0 }, cond(7)).unwrap(),
        pso::real_pso::<RealP>(pso::RealProblemParameters { num_particles: 5, start_weight: 0.9, end_weight: 0.4, c_one: 1.0, c_two: 2.0, v_max: 1.5 }, cond(7)).unwrap(),
    ], &["ParticleVelocitiesUpdate", "Linear"]);
    cases += check("real_sa", vec![
        sa::real_sa::<RealP>(sa::RealProblemParameters { t_0: 10.0, alpha: 0.9, deviation: 0.1 }, cond(7)).unwrap(),
        sa::real_sa::<RealP>(sa::RealProblemParameters { t_0: 11.0, alpha: 0.9, deviation: 0.1 }, cond(7)).unwrap(),
        sa::real_sa::<RealP>(sa::RealProblemParameters { t_0: 10.0, alpha: 0.8, deviation: 0.1 }, cond(7)).unwrap(),
        sa::real_sa::<RealP>(sa::RealProblemParameters { t_0: 10.0, alpha: 0.9, deviation: 0.2 }, cond(7)).unwrap(),
    ], &["ExponentialAnnealingAcceptance", "GeometricCooling"]);
    cases += check("permutation_sa", vec![
        sa::permutation_sa::<PermP>(sa::PermutationProblemParameters { t_0: 10.0, alpha: 0.9, num_swap: 2 }, cond(7)).unwrap(),
        sa::permutation_sa::<PermP>(sa::PermutationProblemParameters { t_0: 10.0, alpha: 0.9, num_swap: 3 }, cond(7)).unwrap(),
    ], &["SwapMutation", "GeometricCooling"]);
    cases += check("real_ls", vec![
        ls::real_ls::<RealP>(ls::RealProblemParameters { n_neighbors: 4, deviation: 0.1 }, cond(7)).unwrap(),
        ls::real_ls::<RealP>(ls::RealProblemParameters { n_neighbors: 5, deviation: 0.1 }, cond(7)).unwrap(),
        ls::real_ls::<RealP>(ls::RealProblemParameters { n_neighbors: 4, deviation: 0.2 }, cond(7)).unwrap(),
    ], &["NormalMutation"]);
    cases += check("permutation_ls", vec![
        ls::permutation_ls::<PermP>(ls::PermutationProblemParameters { num_neighbors: 4, num_swap: 2 }, cond(7)).unwrap(),
        ls::permutation_ls::<PermP>(ls::PermutationProblemParameters { num_neighbors: 5, num_swap: 2 }, cond(7)).unwrap(),
        ls::permutation_ls::<PermP>(ls::PermutationProblemParameters { num_neighbors: 4, num_swap: 3 }, cond(7)).unwrap(),
    ], &["SwapMutation"]);
    cases += check("real_ils", vec![
        ils::real_ils::<RealP>(ils::RealProblemParameters { ls_params: ls::RealProblemParameters { n_neighbors: 4, deviation: 0.1 }, ls_condition: cond(3) }, cond(7)).unwrap(),
        ils::real_ils::<RealP>(ils::RealProblemParameters { ls_params: ls::RealProblemParameters { n_neighbors: 4, deviation: 0.1 }, ls_condition: cond(4) }, cond(7)).unwrap(),
        ils::real_ils::<RealP>(ils::RealProblemParameters { ls_params: ls::RealProblemParameters { n_neighbors: 5, deviation: 0.1 }, ls_condition: cond(3) }, cond(7)).unwrap(),
    ], &["Scope", "Loop"]);
    cases += check("permutation_ils", vec![
        ils::permutation_ils::<PermP>(ils::PermutationProblemParameters { ls_params: ls::PermutationProblemParameters { num_neighbors: 4, num_swap: 2 }, ls_condition: cond(3) }, cond(7)).unwrap(),
        ils::permutation_ils::<PermP>(ils::PermutationProblemParameters { ls_params: ls::PermutationProblemParameters { num_neighbors: 4, num_swap: 3 }, ls_condition: cond(3) }, cond(7)).unwrap(),
    ], &["Scope"]);
    cases += check("real_iwo", vec![
        iwo::real_iwo::<RealP>(iwo::RealProblemParameters { initial_population_size: 5, max_population_size: 10, min_number_of_seeds: 0, max_number_of_seeds: 5, initial_deviation: 1.0, final_deviation: 0.1, modulation_index: 3 }, cond(7)).unwrap(),
        iwo::real_iwo::<RealP>(iwo::RealProblemParameters { initial_population_size: 5, max_population_size: 11, min_number_of_seeds: 0, max_number_of_seeds: 5, initial_deviation: 1.0, final_deviation: 0.1, modulation_index: 3 }, cond(7)).unwrap(),
        iwo::real_iwo::<RealP>(iwo::RealProblemParameters { initial_population_size: 5, max_population_size: 10, min_number_of_seeds: 1, max_number_of_seeds: 5, initial_deviation: 1.0, final_deviation: 0.1, modulation_index: 3 }, cond(7)).unwrap(),
        iwo::real_iwo::<RealP>(iwo::RealProblemParameters { initial_population_size: 5, max_population_size: 10, min_number_of_seeds: 0, max_number_of_seeds: 5, initial_deviation: 1.0, final_deviation: 0.2, modulation_index: 3 }, cond(7)).unwrap(),
        iwo::real_iwo::<RealP>(iwo::RealProblemParameters { initial_population_size: 5, max_population_size: 10, min_number_of_seeds: 0, max_number_of_seeds: 5, initial_deviation: 1.0, final_deviation: 0.1, modulation_index: 2 }, cond(7)).unwrap(),
    ], &["DeterministicFitnessProportional", "MuPlusLambda"]);
    cases += check("real_mu_plus_lambda_es", vec![
        es::real_mu_plus_lambda_es::<RealP, ()>(es::RealProblemParameters { population_size: 5, lambda: 10, deviation: 0.1 }, cond(7)).unwrap(),
        es::real_mu_plus_lambda_es::<RealP, ()>(es::RealProblemParameters { population_size: 5, lambda: 11, deviation: 0.1 }, cond(7)).unwrap(),
        es::real_mu_plus_lambda_es::<RealP, ()>(es::RealProblemParameters { population_size: 6, lambda: 10, deviation: 0.1 }, cond(7)).unwrap(),
    ], &["MuPlusLambda", "FullyRandom"]);
    cases += check("real_de", vec![
        de::real_de::<RealP>(de::RealProblemParameters { population_size: 10, y: 1, f: 0.5, pc: 0.8 }, cond(7)).unwrap(),
        de::real_de::<RealP>(de::RealProblemParameters { population_size: 10, y: 2, f: 0.5, pc: 0.8 }, cond(7)).unwrap(),
        de::real_de::<RealP>(de::RealProblemParameters { population_size: 10, y: 1, f: 0.6, pc: 0.8 }, cond(7)).unwrap(),
        de::real_de::<RealP>(de::RealProblemParameters { population_size: 10, y: 1, f: 0.5, pc: 0.7 }, cond(7)).unwrap(),
    ], &["DEBest", "DEMutation", "DEBinomialCrossover", "KeepBetterAtIndex"]);
    cases += check("real_fa", vec![
        fa::real_fa::<RealP>(fa::RealProblemParameters { pop_size: 5, alpha: 0.25, beta: 1.0, gamma: 1.0, delta: 0.97 }, cond(7)).unwrap(),
        fa::real_fa::<RealP>(fa::RealProblemParameters { pop_size: 5, alpha: 0.5, beta: 1.0, gamma: 1.0, delta: 0.97 }, cond(7)).unwrap(),
        fa::real_fa::<RealP>(fa::RealProblemParameters { pop_size: 5, alpha: 0.25, beta: 0.5, gamma: 1.0, delta: 0.97 }, cond(7)).unwrap(),
        fa::real_fa::<RealP>(fa::RealProblemParameters { pop_size: 5, alpha: 0.25, beta: 1.0, gamma: 0.5, delta: 0.97 }, cond(7)).unwrap(),
        fa::real_fa::<RealP>(fa::RealProblemParameters { pop_size: 5, alpha: 0.25, beta: 1.0, gamma: 1.0, delta: 0.9 }, cond(7)).unwrap(),
    ], &["FireflyPositionsUpdate"]);
    cases += check("real_bh", vec![
        bh::real_bh::<RealP>(bh::RealProblemParameters { num_particles: 5 }, cond(7)).unwrap(),
        bh::real_bh::<RealP>(bh::RealProblemParameters { num_particles: 6 }, cond(7)).unwrap(),
    ], &["EventHorizon"]);
    cases += check("real_rw", vec![
        rw::real_rw::<RealP>(rw::RealProblemParameters { deviation: 0.1 }, cond(7)).unwrap(),
        rw::real_rw::<RealP>(rw::RealProblemParameters { deviation: 0.2 }, cond(7)).unwrap(),
    ], &["NormalMutation"]);
    cases += check("permutation_random_walk", vec![
        rw::permutation_random_walk::<PermP>(rw::PermutationProblemParameters { num_swap: 2 }, cond(7)).unwrap(),
        rw::permutation_random_walk::<PermP>(rw::PermutationProblemParameters { num_swap: 3 }, cond(7)).unwrap(),
    ], &["SwapMutation"]);
    cases += check("real_rs", vec![rs::real_rs::<RealP>(cond(7)).unwrap(), rs::real_rs::<RealP>(cond(8)).unwrap()], &["RandomSpread"]);
    cases += check("permutation_rs", vec![rs::permutation_rs::<PermP>(cond(7)).unwrap(), rs::permutation_rs::<PermP>(cond(8)).unwrap()], &["RandomPermutation"]);
    cases += check("real_cro", vec![
        cro::real_cro::<RealP>(cro::RealProblemParameters { initial_population_size: 5, mole_coll: 0.5, kinetic_energy_lr: 0.5, alpha: 10, beta: 0.2, initial_kinetic_energy: 100.0, buffer: 0.0, on_wall_deviation: 0.1, decomposition_deviation: 0.2 }, cond(7)).unwrap(),
        cro::real_cro::<RealP>(cro::RealProblemParameters { initial_population_size: 5, mole_coll: 0.6, kinetic_energy_lr: 0.5, alpha: 10, beta: 0.2, initial_kinetic_energy: 100.0, buffer: 0.0, on_wall_deviation: 0.1, decomposition_deviation: 0.2 }, cond(7)).unwrap(),
        cro::real_cro::<RealP>(cro::RealProblemParameters { initial_population_size: 5, mole_coll: 0.5, kinetic_energy_lr: 0.5, alpha: 11, beta: 0.2, initial_kinetic_energy: 100.0, buffer: 0.0, on_wall_deviation: 0.1, decomposition_deviation: 0.2 }, cond(7)).unwrap(),
        cro::real_cro::<RealP>(cro::RealProblemParameters { initial_population_size: 5, mole_coll: 0.5, kinetic_energy_lr: 0.5, alpha: 10, beta: 0.2, initial_kinetic_energy: 100.0, buffer: 0.0, on_wall_deviation: 0.1, decomposition_deviation: 0.3 }, cond(7)).unwrap(),
    ], &["ChemicalReactionInit"]);
    // ---- nesting: the same components in a different structure must serialise differently
    use crate::components::{initialization::RandomSpread, mutation::NormalMutation};
    let flat = Configuration::<RealP>::builder().do_(RandomSpread::new(3)).do_(NormalMutation::new(0.1, 1.0)).build();
    let looped = Configuration::<RealP>::builder().do_(RandomSpread::new(3)).while_(cond(2), |b| b.do_(NormalMutation::new(0.1, 1.0))).build();
    let scoped = Configuration::<RealP>::builder().do_(RandomSpread::new(3)).scope_(|b| b.do_(NormalMutation::new(0.1, 1.0))).build();
    let branched = Configuration::<RealP>::builder().do_(RandomSpread::new(3)).if_(cond(2), |b| b.do_(NormalMutation::new(0.1, 1.0))).build();
    let branched_else = Configuration::<RealP>::builder().do_(RandomSpread::new(3)).if_else_(cond(2), |b| b.do_(NormalMutation::new(0.1, 1.0)), |b| b.do_(NormalMutation::new(0.1, 1.0))).build();
    let swapped = Configuration::<RealP>::builder().do_(NormalMutation::new(0.1, 1.0)).do_(RandomSpread::new(3)).build();
    let texts: Vec<String> = [&flat, &looped, &scoped, &branched, &branched_else, &swapped].iter().map(|c| ser(c)).collect();
    for i in 0..texts.len() { for j in 0..i {
        if texts[i] == texts[j] { eprintln!("COUNTEREXAMPLE structures {j} and {i} (flat, loop, scope, if, if-else, swapped order) serialise identically:\n{}", texts[i]); panic!("configurations that differ in structure must serialise differently") }
    }}
    cases += 6;
    // ---- lenses are parameters too: the same mapping over different lens TARGETS (incl. targets that differ only in a type
    //      argument of a generic state type) must serialise differently and name the target completely
    {
        use crate::{components::{mapping::Linear, mutation::{MutationStrength, UniformMutation}, swarm::pso::{InertiaWeight, ParticleVelocitiesUpdate}},
                    identifier::{A, B}, lens::ValueOf, state::common::{Evaluations, Iterations, Progress}};
        let a = Configuration::<RealP>::builder().do_(Linear::new(0.9, 0.4, ValueOf::<Progress<ValueOf<Iterations>>>::new(), ValueOf::<InertiaWeight<ParticleVelocitiesUpdate>>::new())).build();
        let b = Configuration::<RealP>::builder().do_(Linear::new(0.9, 0.4, ValueOf::<Progress<ValueOf<Evaluations>>>::new(), ValueOf::<InertiaWeight<ParticleVelocitiesUpdate>>::new())).build();
        let c = Configuration::<RealP>::builder().do_(Linear::new(0.9, 0.4, ValueOf::<Progress<ValueOf<Iterations>>>::new(), ValueOf::<InertiaWeight<ParticleVelocitiesUpdate<A>>>::new())).build();
        let d = Configuration::<RealP>::builder().do_(Linear::new(0.9, 0.4, ValueOf::<Progress<ValueOf<Iterations>>>::new(), ValueOf::<InertiaWeight<ParticleVelocitiesUpdate<B>>>::new())).build();
        let e = Configuration::<RealP>::builder().do_(Linear::new(0.9, 0.4, ValueOf::<Progress<ValueOf<Iterations>>>::new(), ValueOf::<MutationStrength<NormalMutation>>::new())).build();
        let f = Configuration::<RealP>::builder().do_(Linear::new(0.9, 0.4, ValueOf::<Progress<ValueOf<Iterations>>>::new(), ValueOf::<MutationStrength<UniformMutation>>::new())).build();
        let texts: Vec<String> = [&a, &b, &c, &d, &e, &f].iter().map(|x| ser(x)).collect();
        for i in 0..texts.len() { for j in 0..i {
            if texts[i] == texts[j] { eprintln!("COUNTEREXAMPLE lens variants {j} and {i} (input Progress<Iterations> / Progress<Evaluations>; output InertiaWeight<..>, <..A>, <..B>, MutationStrength<Normal>, <Uniform>) serialise identically:\n{}", texts[i]); panic!("configurations that differ in a lens target must serialise differently") }
        }}
        if !texts[0].contains("Iterations") || !texts[1].contains("Evaluations") { eprintln!("COUNTEREXAMPLE the export does not name the complete lens target:\n{}\n{}", texts[0], texts[1]); panic!("the serialisation must name every parameter") }
        cases += 6;
    }
    println!("c15_native_config_serialisation: {} configurations serialised and compared", cases);
}
