//! C15 — the step kernel: "one entry per fired rule (the first rule wins for a repeated name)".
use super::*;
use crate::logging::log::{Entry, Step};

fn entry(name: &'static str, v: u32) -> Entry { Entry { name, value: Box::new(v) } }

/// @verif anchor=Step::push bound="3 pushes over 2 names; which names repeat is symbolic"
#[cfg_attr(kani, kani::proof)] #[cfg_attr(kani, kani::unwind(8))]
pub fn c15_step_push_first_wins() {
    let names: [&'static str; 2] = ["alpha", "beta"];
    let (i0, i1, i2): (usize, usize, usize) = (sym(), sym(), sym());
    assume(i0 < 2 && i1 < 2 && i2 < 2);
    let mut step = Step::default();
    assert!(step.entries().is_empty());
    step.push(entry(names[i0], 0));
    step.push(entry(names[i1], 1));
    step.push(entry(names[i2], 2));
    let e = step.entries();
    // expected: first occurrence of each name, in push order
    let second_new = i1 != i0;
    let third_new = i2 != i0 && i2 != i1;
    let want = 1 + second_new as usize + third_new as usize;
    assert!(e.len() == want, "a repeated name must not add a second entry");
    assert!(e[0].name == names[i0], "the first entry wins");
    if second_new { assert!(e[1].name == names[i1]); }
    assert!(step.contains(names[i0]) && step.contains(names[i1]) && step.contains(names[i2]));
    assert!(!step.contains("gamma"));
    std::mem::forget(step);
}
