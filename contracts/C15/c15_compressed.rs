//! C15 — compressed export kernel (`CompressedLog::from`, private: injected as a child module of logging::log):
//! "name table + per-step key->value maps": every name once; every step entry maps the key OF ITS OWN NAME to its value.
use super::*;
use crate::verif_harness::*;

fn entry(name: &'static str, v: u32) -> Entry { Entry { name, value: Box::new(v) } }

fn compressed(n0: usize, n1: usize) {
    let names: [&'static str; 3] = ["alpha", "beta", "gamma"];
    let mut log = Log::new();
    let mut s0 = Step::default();
    for k in 0..n0 { let i: usize = sym(); assume(i < 3); s0.push(entry(names[i], 10 + k as u32)); }
    let mut s1 = Step::default();
    for k in 0..n1 { let i: usize = sym(); assume(i < 3); s1.push(entry(names[i], 20 + k as u32)); }
    log.push(s0);
    log.push(s1);
    let clog = CompressedLog::from(&log);
    // every name exactly once in the table
    for i in 0..clog.names.len() {
        for j in 0..i { assert!(clog.names[i] != clog.names[j], "a name occurs twice in the name table"); }
    }
    assert!(clog.entries.len() == 2, "one compressed step per step");
    for (si, step) in log.steps().iter().enumerate() {
        assert!(clog.entries[si].len() == step.entries().len(), "an entry was dropped or duplicated in the export");
        for e in step.entries() {
            // the key of this entry's name ...
            let mut key = usize::MAX;
            for k in 0..clog.names.len() { if clog.names[k] == e.name { key = k; } }
            assert!(key != usize::MAX, "an entry's name is missing from the name table");
            // ... maps to this entry's value in this step
            match clog.entries[si].get(&key) {
                Some(v) => assert!(std::ptr::eq(*v as *const dyn DynSerialize as *const u8, &e.value as *const Box<dyn DynSerialize + Send> as *const u8),
                                   "the export maps a name's key to another entry's value"),
                None => assert!(false, "the export has no value under the key of an entry's name"),
            }
        }
    }
    std::mem::forget(clog);
    std::mem::forget(log);
}
/// two steps with one entry each; the names are symbolic (so a name can first appear in the second step)
/// @verif anchor=CompressedLog::from bound="2 steps x 1 entry over 3 names; choice of names symbolic"
#[cfg_attr(kani, kani::proof)] #[cfg_attr(kani, kani::unwind(8))]
pub fn c15_compressed_log_1_1() { compressed(1, 1) }
/// @verif anchor=CompressedLog::from tier=thorough bound="2 steps x 2 entries over 3 names; choice of names symbolic"
#[cfg_attr(kani, kani::proof)] #[cfg_attr(kani, kani::unwind(8))]
pub fn c15_compressed_log_2_2() { compressed(2, 2) }
