//! C10 — equality measures used by `ChangeOf`: contracts from the documentation ("equal" / "difference less than
//! the threshold"), over all values (loop-free, complete).
use super::*;
use crate::conditions::common::{DeltaEqChecker, EqualityChecker, PartialEqChecker};

/// @verif anchor=PartialEqChecker::eq
#[cfg_attr(kani, kani::proof)]
pub fn c10_partial_eq_checker() {
    let (a, b): (u32, u32) = (sym(), sym());
    let c = PartialEqChecker::from_params();
    assert!(<PartialEqChecker as EqualityChecker<u32>>::eq(&c, &a, &b) == (a == b), "PartialEqChecker::eq must be ==");
}
/// @verif anchor=DeltaEqChecker::eq
#[cfg_attr(kani, kani::proof)]
pub fn c10_delta_eq_checker() {
    let (a, b, t): (u32, u32, u32) = (sym(), sym(), sym());
    let c = DeltaEqChecker::from_params(t);
    let diff = if a < b { b - a } else { a - b };
    assert!(c.eq(&a, &b) == (diff < t), "DeltaEqChecker::eq: equal iff the difference is less than the threshold");
    vcover!(diff < t);
    vcover!(diff >= t);
}
/// @verif anchor=DeltaEqChecker::eq
#[cfg_attr(kani, kani::proof)]
pub fn c10_delta_eq_checker_i64() {
    let (a, b, t): (i64, i64, i64) = (sym(), sym(), sym());
    assume(a >= -1_000_000_000_000 && a <= 1_000_000_000_000 && b >= -1_000_000_000_000 && b <= 1_000_000_000_000);
    let c = DeltaEqChecker::from_params(t);
    let diff = if a < b { b - a } else { a - b };
    assert!(c.eq(&a, &b) == (diff < t), "DeltaEqChecker::eq (i64)");
}
