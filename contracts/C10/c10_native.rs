//! C10 — BOUNDED STAND-IN (not a proof) for `And/Or::evaluate` (closure capturing `&mut state`: Verus rejects; Kani does
//! not terminate) and `OptimumReached` (floats behind State): "and, or and not evaluate every operand exactly once per
//! evaluation and combine the results as the Boolean operators do"; "optimum-reached is true exactly when a best value
//! exists and is within epsilon of the known optimum".  Native exhaustive enumeration on the real code.
use std::sync::{atomic::{AtomicUsize, Ordering}, Arc};

use serde::Serialize;

use super::*;
use crate::{
    component::ExecResult,
    conditions::{And, Condition, Not, OptimumReached, Or},
    problems::{KnownOptimumProblem, Problem},
    state::common::BestIndividual,
    Individual, SingleObjective, State,
};

pub struct P0;
impl Problem for P0 {
    type Encoding = u8;
    type Objective = SingleObjective;
    fn name(&self) -> &str { "P0" }
}
impl KnownOptimumProblem for P0 {
    fn known_optimum(&self) -> SingleObjective { SingleObjective::try_from(1.5).unwrap() }
}

#[derive(Clone, Serialize)]
pub struct Scripted { value: bool, #[serde(skip)] count: Arc<AtomicUsize> }
impl Condition<P0> for Scripted {
    fn evaluate(&self, _problem: &P0, _state: &mut State<P0>) -> ExecResult<bool> {
        self.count.fetch_add(1, Ordering::SeqCst);
        Ok(self.value)
    }
}

// @native-harness
pub fn c10_native_logical_and_optimum() {
    let mut cases = 0u64;
    // all operand vectors of length 0..=4
    for n in 0..=4usize {
        for bits in 0..(1u32 << n) {
            let vals: Vec<bool> = (0..n).map(|i| bits >> i & 1 == 1).collect();
            for which in 0..2 {
                let counters: Vec<Arc<AtomicUsize>> = (0..n).map(|_| Arc::new(AtomicUsize::new(0))).collect();
                let ops: Vec<Box<dyn Condition<P0>>> = (0..n).map(|i| Box::new(Scripted { value: vals[i], count: counters[i].clone() }) as Box<dyn Condition<P0>>).collect();
                let c = if which == 0 { And::new(ops) } else { Or::new(ops) };
                let mut state: State<P0> = State::new();
                for round in 1..=2usize {
                    let got = c.evaluate(&P0, &mut state).unwrap();
                    let want = if which == 0 { vals.iter().all(|v| *v) } else { vals.iter().any(|v| *v) };
                    if got != want || counters.iter().any(|k| k.load(Ordering::SeqCst) != round) {
                        eprintln!("COUNTEREXAMPLE {} over {:?} round {round}: got {got}, operand evaluation counts {:?}", if which == 0 { "And" } else { "Or" }, vals,
                                  counters.iter().map(|k| k.load(Ordering::SeqCst)).collect::<Vec<_>>());
                        panic!("And/Or must evaluate every operand exactly once per evaluation and combine like the Boolean operator");
                    }
                    // a negation on top evaluates the formula once more and flips it
                    let k0 = counters.iter().map(|k| k.load(Ordering::SeqCst)).collect::<Vec<_>>();
                    let _ = k0;
                }
                cases += 1;
            }
        }
    }
    // Not over And: evaluates once, negates
    let cnt = Arc::new(AtomicUsize::new(0));
    let n = Not::new(And::new(vec![Box::new(Scripted { value: true, count: cnt.clone() }) as Box<dyn Condition<P0>>]));
    let mut state: State<P0> = State::new();
    if n.evaluate(&P0, &mut state).unwrap() || cnt.load(Ordering::SeqCst) != 1 { panic!("Not(And(true)) must be false after exactly one evaluation"); }
    // OptimumReached: true exactly when a best value exists and is within epsilon of the known optimum (1.5)
    for eps in [0.0, 0.25, 1.0] {
        let c = OptimumReached::new::<P0>(eps).unwrap();
        let mut state: State<P0> = State::new();
        if c.evaluate(&P0, &mut state).unwrap() { panic!("OptimumReached must be false without any best individual state"); }
        state.insert(BestIndividual::<P0>::new());
        if c.evaluate(&P0, &mut state).unwrap() { panic!("OptimumReached must be false while no best value exists"); }
        for f in [1.5, 1.5 + eps, 1.5 + eps + 0.5, 1.0, 10.0, f64::INFINITY] {
            let mut state: State<P0> = State::new();
            let mut b = BestIndividual::<P0>::new();
            b.update(&Individual::new(0, SingleObjective::try_from(f).unwrap()));
            state.insert(b);
            let got = c.evaluate(&P0, &mut state).unwrap();
            if got != (f <= 1.5 + eps) {
                eprintln!("COUNTEREXAMPLE OptimumReached eps={eps} best={f}: got {got}");
                panic!("optimum-reached must be true exactly when the best value is within epsilon of the known optimum");
            }
            cases += 1;
        }
    }
    println!("c10_native_logical_and_optimum: {} cases checked", cases);
}
