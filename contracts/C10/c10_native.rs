//! C10 — BOUNDED STAND-IN (not a proof) for `And/Or::evaluate` (closure capturing `&mut state`: Verus rejects; Kani does
//! not terminate) and `OptimumReached` (floats behind State): "and, or and not evaluate every operand exactly once per
//! evaluation and combine the results as the Boolean operators do"; "optimum-reached is true exactly when a best value
//! exists and is within epsilon of the known optimum".  Native exhaustive enumeration on the real code.
use std::sync::{atomic::{AtomicUsize, Ordering}, Arc};

use serde::Serialize;

use super::*;
use crate::{
    component::ExecResult,
    conditions::{And, Condition, Not, OptimumReached, Or},
    problems::{KnownOptimumProblem, Problem},
    state::common::BestIndividual,
    Individual, SingleObjective, State,
};

pub struct P0;
impl Problem for P0 {
    type Encoding = u8;
    type Objective = SingleObjective;
    fn name(&self) -> &str { "P0" }
}
impl KnownOptimumProblem for P0 {
    fn known_optimum(&self) -> SingleObjective { SingleObjective::try_from(1.5).unwrap() }
}

#[derive(Clone, Serialize)]
pub struct Scripted { value: bool, #[serde(skip)] count: Arc<AtomicUsize> }
impl Condition<P0> for Scripted {
    fn evaluate(&self, _problem: &P0, _state: &mut State<P0>) -> ExecResult<bool> {
        self.count.fetch_add(1, Ordering::SeqCst);
        Ok(self.value)
    }
}

// @native-harness
pub fn c10_native_logical_and_optimum() {
    let mut cases = 0u64;
    // all operand vectors of length 0..=4
    for n in 0..=4usize {
        for bits in 0..(1u32 << n) {
            let vals: Vec<bool> = (0..n).map(|i| bits >> i & 1 == 1).collect();
            for which in 0..2 {
                let counters: Vec<Arc<AtomicUsize>> = (0..n).map(|_| Arc::new(AtomicUsize::new(0))).collect();
                let ops: Vec<Box<dyn Condition<P0>>> = (0..n).map(|i| Box::new(Scripted { value: vals[i], count: counters[i].clone() }) as Box<dyn Condition<P0>>).collect();
                let c = if which == 0 { And::new(ops) } else { Or::new(ops) };
                let mut state: State<P0> = State::new();
                for round in 1..=2usize {
                    let got = c.evaluate(&P0, &mut state).unwrap();
                    let want = if which == 0 { vals.iter().all(|v| *v) } else { vals.iter().any(|v| *v) };
                    if got != want || counters.iter().any(|k| k.load(Ordering::SeqCst) != round) {
                        eprintln!("COUNTEREXAMPLE {} over {:?} round {round}: got {got}, operand evaluation counts {:?}", if which == 0 { "And" } else { "Or" }, vals,
                                  counters.iter().map(|k| k.load(Ordering::SeqCst)).collect::<Vec<_>>());
                        panic!("And/Or must evaluate every operand exactly once per evaluation and combine like the Boolean operator");
                    }
                    // a negation on top evaluates the formula once more and flips it
                    let k0 = counters.iter().map(|k| k.load(Ordering::SeqCst)).collect::<Vec<_>>();
                    let _ = k0;
                }
                cases += 1;
            }
        }
    }
    // Not over And: evaluates once, negates
    let cnt = Arc::new(AtomicUsize::new(0));
    let n = Not::new(And::new(vec![Box::new(Scripted { value: true, count: cnt.clone() }) as Box<dyn Condition<P0>>]));
    let mut state: State<P0> = State::new();
    if n.evaluate(&P0, &mut state).unwrap() || cnt.load(Ordering::SeqCst) != 1 { panic!("Not(And(true)) must be false after exactly one evaluation"); }
    // OptimumReached: true exactly when a best value exists and is within epsilon of the known optimum (1.5)
    for eps in [0.0, 0.25, 1.0] {
        let c = OptimumReached::new::<P0>(eps).unwrap();
        let mut state: State<P0> = State::new();
        if c.evaluate(&P0, &mut state).unwrap() { panic!("OptimumReached must be false without any best individual state"); }
        state.insert(BestIndividual::<P0>::new());
        if c.evaluate(&P0, &mut state).unwrap() { panic!("OptimumReached must be false while no best value exists"); }
        for f in [1.5, 1.5 + eps, 1.5 + eps + 0.5, 1.0, 10.0, f64::INFINITY] {
            let mut state: State<P0> = State::new();
            let mut b = BestIndividual::<P0>::new();
            b.update(&Individual::new(0, SingleObjective::try_from(f).unwrap()));
            state.insert(b);
            let got = c.evaluate(&P0, &mut state).unwrap();
            if got != (f <= 1.5 + eps) {
                eprintln!("COUNTEREXAMPLE OptimumReached eps={eps} best={f}: got {got}");
                panic!("optimum-reached must be true exactly when the best value is within epsilon of the known optimum");
            }
            cases += 1;
        }
    }
    println!("c10_native_logical_and_optimum: {} cases checked", cases);
}

// ------------------------------------------------------------------------------------------------------------------
// BOUNDED STAND-IN (not a proof) for the whole-loop clauses: "an iteration-bounded loop makes exactly n passes, tests its
// condition n+1 times and reports progress value/n", "every-n is true exactly on multiples of n", "random-chance fires with the
// configured probability".  (The per-call contracts of LessThanN/EveryN/Loop are Verus units; the VALUE of the progress is a
// float division Verus leaves uninterpreted, and RandomChance draws from the State's generator.)  Native runs, real code.
use crate::{
    conditions::{EveryN, LessThanN, RandomChance},
    configuration::Configuration,
    lens::ValueOf,
    state::{common::{Iterations, Progress}, random::Random},
};

// @native-harness
pub fn c10_native_loops_and_chance() {
    let mut cases = 0u64;
    for n in 0..=7u32 {
        for m in 1..=4u32 {
            let tests = Arc::new(AtomicUsize::new(0));
            let passes = Arc::new(AtomicUsize::new(0));
            let trace: Arc<std::sync::Mutex<Vec<(u32, f64, bool)>>> = Arc::new(std::sync::Mutex::new(Vec::new()));
            let (p2, t2) = (passes.clone(), trace.clone());
            let cond = And::new(vec![LessThanN::iterations(n), Box::new(Scripted { value: true, count: tests.clone() }) as Box<dyn Condition<P0>>]);
            let every = EveryN::<ValueOf<Iterations>>::iterations::<P0>(m);
            let config = Configuration::<P0>::builder()
                .while_(cond, move |b| {
                    let (p2, t2, every) = (p2.clone(), t2.clone(), every.clone());
                    b.debug(move |problem, state| {
                        p2.fetch_add(1, Ordering::SeqCst);
                        let it = state.iterations();
                        let pr = state.get_value::<Progress<ValueOf<Iterations>>>();
                        let ev = every.evaluate(problem, state).unwrap();
                        t2.lock().unwrap().push((it, pr, ev));
                    })
                })
                .build();
            let state = config.optimize_with(&P0, |_| Ok(())).expect("a bounded loop must not fail");
            let fail = |why: String| -> ! { eprintln!("COUNTEREXAMPLE loop bound n={n} every-n m={m}: {why}"); panic!("loop / condition violates C10") };
            if passes.load(Ordering::SeqCst) != n as usize { fail(format!("{} passes instead of exactly n", passes.load(Ordering::SeqCst))) }
            if tests.load(Ordering::SeqCst) != n as usize + 1 { fail(format!("the condition was tested {} times instead of n+1", tests.load(Ordering::SeqCst))) }
            if state.iterations() != n { fail(format!("{} completed passes counted", state.iterations())) }
            let end = state.get_value::<Progress<ValueOf<Iterations>>>();
            if n > 0 && end != 1.0 { fail(format!("progress after the loop is {end}, expected n/n = 1")) }
            for (k, (it, pr, ev)) in trace.lock().unwrap().iter().enumerate() {
                if *it != k as u32 { fail(format!("pass {k} saw iteration count {it}")) }
                if *pr != k as f64 / n as f64 { fail(format!("progress in pass {k} is {pr}, expected {k}/{n}")) }
                if *ev != (k as u32 % m == 0) { fail(format!("every-{m} evaluated to {ev} at iteration {k}")) }
            }
            cases += 1;
        }
    }
    // less-than-n for EVERY state, not only those a loop starting at 0 reaches: observed values below, at and above n; the
    // reported progress is value/n exactly (also above 1: an evaluation budget overshot by the last pass)
    for n in [1u32, 2, 3, 7, 20, 1000] {
        for value in [0u32, 1, 2, 3, 6, 7, 8, 19, 20, 21, 40, 999, 1000, 1001, 5000, u32::MAX] {
            for evals in [false, true] {
                let c: Box<dyn Condition<P0>> = if evals { LessThanN::evaluations(n) } else { LessThanN::iterations(n) };
                let mut state: State<P0> = State::new();
                state.insert(Iterations(0));
                state.insert(crate::state::common::Evaluations(0));
                c.init(&P0, &mut state).unwrap();
                if evals { *state.borrow_value_mut::<crate::state::common::Evaluations>() = value; } else { *state.borrow_value_mut::<Iterations>() = value; }
                let got = c.evaluate(&P0, &mut state).unwrap();
                let progress = if evals { state.get_value::<Progress<ValueOf<crate::state::common::Evaluations>>>() } else { state.get_value::<Progress<ValueOf<Iterations>>>() };
                if got != (value < n) || progress != f64::from(value) / f64::from(n) {
                    eprintln!("COUNTEREXAMPLE LessThanN({n}) over {} with observed value {value}: result {got} (expected {}), reported progress {progress} (expected {})",
                              if evals { "evaluations" } else { "iterations" }, value < n, f64::from(value) / f64::from(n));
                    panic!("less-than-n does not decide / report what its name says");
                }
                cases += 1;
            }
        }
    }
    // a loop bounded by EVALUATIONS whose body spends 7 per pass: 3 passes for a budget of 20, progress 21/20 at the end
    {
        let config = Configuration::<P0>::builder()
            .while_(LessThanN::evaluations(20), |b| b.debug(|_, state| *state.borrow_value_mut::<crate::state::common::Evaluations>() += 7))
            .build();
        let state = config.optimize_with(&P0, |state| { state.insert(crate::state::common::Evaluations(0)); Ok(()) }).expect("a bounded loop must not fail");
        let progress = state.get_value::<Progress<ValueOf<crate::state::common::Evaluations>>>();
        if state.iterations() != 3 || state.evaluations() != 21 || progress != 21.0 / 20.0 {
            eprintln!("COUNTEREXAMPLE loop bounded by 20 evaluations, 7 per pass: {} passes, {} evaluations, progress {progress} (expected 3, 21, 1.05)", state.iterations(), state.evaluations());
            panic!("loop / condition violates C10");
        }
        cases += 1;
    }
    // RandomChance: p = 0 never, p = 1 always, otherwise the observed frequency over 20000 draws is within 0.02 of p
    for (p, seed) in [(0.0, 1u64), (1.0, 2), (0.1, 3), (0.3, 4), (0.5, 5), (0.9, 6)] {
        let c = RandomChance::new::<P0>(p);
        let mut state: State<P0> = State::new();
        state.insert(Random::new(seed));
        let draws = 20000;
        let hits = (0..draws).filter(|_| c.evaluate(&P0, &mut state).unwrap()).count();
        let freq = hits as f64 / draws as f64;
        if (p == 0.0 && hits != 0) || (p == 1.0 && hits != draws) || (freq - p).abs() > 0.02 {
            eprintln!("COUNTEREXAMPLE RandomChance p={p} seed={seed}: fired {hits} times in {draws} evaluations");
            panic!("random-chance does not fire with the configured probability");
        }
        cases += 1;
    }
    // probability 0 NEVER fires and probability 1 ALWAYS fires, whatever the generator draws: degenerate generators whose every
    // draw is the smallest / the largest possible one (a draw of exactly 0.0 is a 2^-53 event no seeded run will ever show)
    for p in [0.0, 1.0] {
        for high in [false, true] {
            let c = RandomChance::new::<P0>(p);
            let mut state: State<P0> = State::new();
            state.insert(if high { Random::with_rng::<ConstRng<{ u64::MAX }>>(0) } else { Random::with_rng::<ConstRng<0>>(0) });
            for k in 0..50 {
                let fired = c.evaluate(&P0, &mut state).unwrap();
                if fired != (p == 1.0) {
                    eprintln!("COUNTEREXAMPLE RandomChance p={p} with a generator whose every draw is the {} possible one: evaluation {k} gave {fired}", if high { "largest" } else { "smallest" });
                    panic!("random-chance does not fire with the configured probability");
                }
            }
            cases += 1;
        }
    }
    println!("c10_native_loops_and_chance: {} cases checked", cases);
}


/// a generator whose every draw is the constant `V` (all bits)
pub struct ConstRng<const V: u64>;
impl<const V: u64> rand::RngCore for ConstRng<V> {
    fn next_u32(&mut self) -> u32 { V as u32 }
    fn next_u64(&mut self) -> u64 { V }
    fn fill_bytes(&mut self, dest: &mut [u8]) { for b in dest.iter_mut() { *b = V as u8; } }
    fn try_fill_bytes(&mut self, dest: &mut [u8]) -> Result<(), rand::Error> { self.fill_bytes(dest); Ok(()) }
}
impl<const V: u64> rand::SeedableRng for ConstRng<V> {
    type Seed = [u8; 8];
    fn from_seed(_seed: Self::Seed) -> Self { ConstRng }
}
