//! C13 — BOUNDED STAND-IN (not a proof) for the `recombination()` driver, which neither verifier reaches (State-based,
//! `chunks` + slice patterns): "offspring counts follow the insert-one/insert-both and crossover-probability settings",
//! an unpaired last parent is carried over unchanged, children have the parents' length.  Native run on the real code.
use super::*;
use crate::{
    components::recombination::{NPointCrossover, UniformCrossover},
    problems::{Problem, VectorProblem},
    state::{common::Populations, random::Random},
    Component, Individual, SingleObjective, State,
};

pub struct VecProblem;
impl Problem for VecProblem {
    type Encoding = Vec<u8>;
    type Objective = SingleObjective;
    fn name(&self) -> &str { "VecProblem" }
}
impl VectorProblem for VecProblem {
    type Element = u8;
    fn dimension(&self) -> usize { 4 }
}

fn run(c: &dyn Component<VecProblem>, n: usize, seed: u64) -> (Vec<Vec<u8>>, Vec<Vec<u8>>, usize) {
    let mut state: State<VecProblem> = State::new();
    state.insert(Random::new(seed));
    state.insert(Populations::<VecProblem>::new());
    state.populations_mut().push(vec![Individual::new_unevaluated(vec![200u8; 4])]);      // something underneath
    let parents: Vec<Vec<u8>> = (0..n).map(|i| vec![(10 * i) as u8, (10 * i + 1) as u8, (10 * i + 2) as u8, (10 * i + 3) as u8]).collect();
    state.populations_mut().push(parents.iter().cloned().map(Individual::new_unevaluated).collect());
    c.execute(&VecProblem, &mut state).expect("recombination must not fail on a valid population");
    let h = state.populations().len();
    let children = state.populations().current().iter().map(|i| i.solution().clone()).collect();
    (parents, children, h)
}

// @native-harness
pub fn c13_native_recombination_counts() {
    let mut cases = 0u64;
    for n in 0..=7usize {
        for pc in [0.0f64, 1.0] {
            for both in [false, true] {
                for seed in 0..4u64 {
                    for which in 0..2 {
                        let comp: Box<dyn Component<VecProblem>> = if which == 0 { UniformCrossover::new(pc, both) } else { NPointCrossover::new(2, pc, both) };
                        let (parents, children, h) = run(comp.as_ref(), n, seed);
                        let pairs = n / 2;
                        let want = if pc == 0.0 { n } else { pairs * (if both { 2 } else { 1 }) + n % 2 };
                        let fail = |why: &str| -> ! {
                            eprintln!("COUNTEREXAMPLE op={which} parents={n} pc={pc} insert_both={both} seed={seed}: {why}; children={:?}", children);
                            panic!("recombination driver violates the offspring-count settings")
                        };
                        if h != 2 { fail("the population below was disturbed or the stack height changed") }
                        if children.len() != want { fail("wrong number of offspring") }
                        if children.iter().any(|c| c.len() != 4) { fail("child length differs from the parents' length") }
                        if n % 2 == 1 && children.last() != parents.last() { fail("the unpaired last parent was not carried over unchanged") }
                        if pc == 0.0 && children != parents { fail("with crossover probability 0 the parents must be carried over unchanged") }
                        cases += 1;
                    }
                }
            }
        }
    }
    println!("c13_native_recombination_counts: {} cases checked", cases);
}
