//! C13 — BOUNDED STAND-IN (not a proof) for the `recombination()` driver, which neither verifier reaches (State-based,
//! `chunks` + slice patterns): "offspring counts follow the insert-one/insert-both and crossover-probability settings",
//! an unpaired last parent is carried over unchanged, children have the parents' length.  Native run on the real code.
use super::*;
use crate::{
    components::recombination::{NPointCrossover, UniformCrossover},
    problems::{Problem, VectorProblem},
    state::{common::Populations, random::Random},
    Component, Individual, SingleObjective, State,
};

pub struct VecProblem;
impl Problem for VecProblem {
    type Encoding = Vec<u8>;
    type Objective = SingleObjective;
    fn name(&self) -> &str { "VecProblem" }
}
impl VectorProblem for VecProblem {
    type Element = u8;
    fn dimension(&self) -> usize { 4 }
}

fn run(c: &dyn Component<VecProblem>, n: usize, seed: u64) -> (Vec<Vec<u8>>, Vec<Vec<u8>>, usize) {
    let mut state: State<VecProblem> = State::new();
    state.insert(Random::new(seed));
    state.insert(Populations::<VecProblem>::new());
    state.populations_mut().push(vec![Individual::new_unevaluated(vec![200u8; 4])]);      // something underneath
    let parents: Vec<Vec<u8>> = (0..n).map(|i| vec![(10 * i) as u8, (10 * i + 1) as u8, (10 * i + 2) as u8, (10 * i + 3) as u8]).collect();
    state.populations_mut().push(parents.iter().cloned().map(Individual::new_unevaluated).collect());
    c.execute(&VecProblem, &mut state).expect("recombination must not fail on a valid population");
    let h = state.populations().len();
    let children = state.populations().current().iter().map(|i| i.solution().clone()).collect();
    (parents, children, h)
}

// @native-harness
pub fn c13_native_recombination_counts() {
    let mut cases = 0u64;
    for n in 0..=7usize {
        for pc in [0.0f64, 1.0] {
            for both in [false, true] {
                for seed in 0..4u64 {
                    for which in 0..2 {
                        let comp: Box<dyn Component<VecProblem>> = if which == 0 { UniformCrossover::new(pc, both) } else { NPointCrossover::new(2, pc, both) };
                        let (parents, children, h) = run(comp.as_ref(), n, seed);
                        let pairs = n / 2;
                        let want = if pc == 0.0 { n } else { pairs * (if both { 2 } else { 1 }) + n % 2 };
                        let fail = |why: &str| -> ! {
                            eprintln!("COUNTEREXAMPLE op={which} parents={n} pc={pc} insert_both={both} seed={seed}: {why}; children={:?}", children);
                            panic!("recombination driver violates the offspring-count settings")
                        };
                        if h != 2 { fail("the population below was disturbed or the stack height changed") }
                        if children.len() != want { fail("wrong number of offspring") }
                        if children.iter().any(|c| c.len() != 4) { fail("child length differs from the parents' length") }
                        if n % 2 == 1 && children.last() != parents.last() { fail("the unpaired last parent was not carried over unchanged") }
                        if pc == 0.0 && children != parents { fail("with crossover probability 0 the parents must be carried over unchanged") }
                        cases += 1;
                    }
                }
            }
        }
    }
    println!("c13_native_recombination_counts: {} cases checked", cases);
}

// ------------------------------------------------------------------------------------------------------------------
// BOUNDED STAND-IN (not a proof) for the mutation COMPONENTS (`execute` bodies over State + the thread RNG; neither verifier
// reaches them): "permutation operators return a permutation of the same elements ... real- and bit-valued mutations keep
// the dimension and leave unchanged whatever a mutation rate of zero excludes ... no operator ... panics, or errs on a valid
// population".  Native runs of the real components for solution lengths 2..=6, population sizes 0..=3 and 64 seeds.
use crate::components::mutation::common::{
    BitFlipMutation, InsertionMutation, InversionMutation, NormalMutation, PartialRandomBitstring, PartialRandomSpread,
    ScrambleMutation, SwapMutation, TranslocationMutation, UniformMutation,
};
use crate::problems::LimitedVectorProblem;

pub struct PermProblem(pub usize);
impl Problem for PermProblem {
    type Encoding = Vec<usize>;
    type Objective = SingleObjective;
    fn name(&self) -> &str { "PermProblem" }
}
impl VectorProblem for PermProblem {
    type Element = usize;
    fn dimension(&self) -> usize { self.0 }
}
pub struct RealProblem(pub usize);
impl Problem for RealProblem {
    type Encoding = Vec<f64>;
    type Objective = SingleObjective;
    fn name(&self) -> &str { "RealProblem" }
}
impl VectorProblem for RealProblem {
    type Element = f64;
    fn dimension(&self) -> usize { self.0 }
}
impl LimitedVectorProblem for RealProblem {
    fn domain(&self) -> Vec<std::ops::Range<f64>> { (0..self.0).map(|i| (-1.0 - i as f64)..(2.0 + i as f64)).collect() }
}
pub struct BitProblem(pub usize);
impl Problem for BitProblem {
    type Encoding = Vec<bool>;
    type Objective = SingleObjective;
    fn name(&self) -> &str { "BitProblem" }
}
impl VectorProblem for BitProblem {
    type Element = bool;
    fn dimension(&self) -> usize { self.0 }
}

/// Runs init + execute of `c` on a stack [below, population]; returns (height, below, mutated population) or the error / panic text.
fn mutate<P: Problem + 'static>(problem: &P, c: &dyn Component<P>, below: Vec<P::Encoding>, pop: Vec<P::Encoding>, seed: u64)
    -> Result<(usize, Vec<P::Encoding>, Vec<P::Encoding>), String>
where P::Encoding: Clone + std::panic::RefUnwindSafe + std::panic::UnwindSafe, P: std::panic::RefUnwindSafe,
{
    let run = std::panic::AssertUnwindSafe(|| -> Result<(usize, Vec<P::Encoding>, Vec<P::Encoding>), String> {
        let mut state: State<P> = State::new();
        state.insert(Random::new(seed));
        state.insert(Populations::<P>::new());
        state.populations_mut().push(below.iter().cloned().map(Individual::new_unevaluated).collect());
        state.populations_mut().push(pop.iter().cloned().map(Individual::new_unevaluated).collect());
        c.init(problem, &mut state).map_err(|e| format!("init returned an error: {e}"))?;
        c.execute(problem, &mut state).map_err(|e| format!("execute returned an error: {e}"))?;
        let h = state.populations().len();
        let cur = state.populations().current().iter().map(|i| i.solution().clone()).collect();
        let b = if h >= 2 { state.populations().peek(1).iter().map(|i| i.solution().clone()).collect() } else { Vec::new() };
        Ok((h, b, cur))
    });
    let prev = std::panic::take_hook();
    std::panic::set_hook(Box::new(|_| {}));
    let r = std::panic::catch_unwind(run);
    std::panic::set_hook(prev);
    match r {
        Ok(x) => x,
        Err(p) => Err(format!("PANIC: {}", p.downcast_ref::<String>().cloned().or_else(|| p.downcast_ref::<&str>().map(|s| s.to_string())).unwrap_or_default())),
    }
}

// @native-harness
pub fn c13_native_permutation_mutations() {
    let mut cases = 0u64;
    // first failing case per operator (all operators are always run, so that one defect does not hide another)
    let mut failures: Vec<(String, String, u64)> = Vec::new();
    for len in 2..=6usize {
        let problem = PermProblem(len);
        let mut ops: Vec<(String, Box<dyn Component<PermProblem>>)> = vec![
            ("ScrambleMutation(rm=0)".into(), ScrambleMutation::new(0.0)),
            ("ScrambleMutation(rm=1)".into(), ScrambleMutation::new_full()),
            ("InversionMutation".into(), InversionMutation::new::<PermProblem, ()>()),
            ("InsertionMutation".into(), InsertionMutation::new()),
            ("TranslocationMutation".into(), TranslocationMutation::new()),
        ];
        for k in 2..=len.min(4) {
            ops.push((format!("SwapMutation({k})"), SwapMutation::new(k as u32).expect("a documented parameter value was rejected")));
        }
        for (name, op) in &ops {
            for n in 0..=3usize {
                for seed in 0..64u64 {
                    let below = vec![(0..len).rev().collect::<Vec<usize>>()];
                    let pop: Vec<Vec<usize>> = (0..n).map(|i| (0..len).map(|j| (j + i) % len).collect()).collect();
                    let mut why: Option<String> = None;
                    match mutate(&problem, op.as_ref(), below.clone(), pop.clone(), seed) {
                        Err(e) => why = Some(format!("the operator fails on a valid population: {e}")),
                        Ok((h, b, cur)) => {
                            if h != 2 || b != below { why = Some("the population below was disturbed or the stack height changed".into()) }
                            else if cur.len() != n { why = Some("the number of individuals changed".into()) }
                            else {
                                for (before, after) in pop.iter().zip(&cur) {
                                    let mut s = after.clone();
                                    s.sort_unstable();
                                    if s != (0..len).collect::<Vec<_>>() { why = Some(format!("{after:?} is not a permutation of the elements of {before:?}")) }
                                    else if name.contains("rm=0") && after != before { why = Some("a mutation rate of zero changed a solution".into()) }
                                }
                            }
                        }
                    }
                    if let Some(why) = why {
                        let op_name = name.split('(').next().unwrap().to_string();
                        if let Some(f) = failures.iter_mut().find(|f| f.0 == op_name) { f.2 += 1 } else {
                            failures.push((op_name, format!("op={name} solution_length={len} population_size={n} seed={seed}: {why}"), 1));
                        }
                    }
                    cases += 1;
                }
            }
        }
    }
    for (_, first, count) in &failures { eprintln!("COUNTEREXAMPLE {first}   [{count} failing cases for this operator]"); }
    if !failures.is_empty() { panic!("permutation mutation violates C13") }
    println!("c13_native_permutation_mutations: {} cases checked", cases);
}

// @native-harness
pub fn c13_native_value_mutations() {
    let mut cases = 0u64;
    for len in 1..=4usize {
        for n in 0..=3usize {
            for seed in 0..32u64 {
                // real-valued
                let rp = RealProblem(len);
                let rpop: Vec<Vec<f64>> = (0..n).map(|i| (0..len).map(|j| 0.25 * (i as f64) - 0.5 * (j as f64)).collect()).collect();
                let rbelow = vec![vec![0.5; len]];
                let rops: Vec<(&str, f64, Box<dyn Component<RealProblem>>)> = vec![
                    ("NormalMutation", 0.0, NormalMutation::new(0.3, 0.0)), ("NormalMutation", 1.0, NormalMutation::new_dev(0.3)),
                    ("NormalMutation", 0.5, NormalMutation::new(0.3, 0.5)),
                    ("UniformMutation", 0.0, UniformMutation::new(0.7, 0.0)), ("UniformMutation", 1.0, UniformMutation::new_bound(0.7)),
                    ("UniformMutation", 0.5, UniformMutation::new(0.7, 0.5)),
                    ("PartialRandomSpread", 0.0, PartialRandomSpread::new(0.0)), ("PartialRandomSpread", 1.0, PartialRandomSpread::new_full()),
                    ("PartialRandomSpread", 0.5, PartialRandomSpread::new(0.5)),
                ];
                for (name, rm, op) in &rops {
                    let fail = |why: String| -> ! {
                        eprintln!("COUNTEREXAMPLE op={name} rm={rm} dimension={len} population_size={n} seed={seed}: {why}");
                        panic!("real-valued mutation violates C13")
                    };
                    match mutate(&rp, op.as_ref(), rbelow.clone(), rpop.clone(), seed) {
                        Err(e) => fail(format!("the operator fails on a valid population: {e}")),
                        Ok((h, b, cur)) => {
                            if h != 2 || b != rbelow { fail("the population below was disturbed or the stack height changed".into()) }
                            if cur.len() != n { fail("the number of individuals changed".into()) }
                            for (before, after) in rpop.iter().zip(&cur) {
                                if after.len() != len { fail("the dimension changed".into()) }
                                if *rm == 0.0 && after != before { fail("a mutation rate of zero changed a solution".into()) }
                                if after.iter().any(|x| !x.is_finite()) { fail(format!("non-finite coordinate in {after:?}")) }
                                for (j, (x0, x1)) in before.iter().zip(after).enumerate() {
                                    if *name == "UniformMutation" && (x1 - x0).abs() > 0.7 { fail(format!("coordinate {j} moved by more than the bound: {x0} -> {x1}")) }
                                    if *name == "PartialRandomSpread" && x1 != x0 && !rp.domain()[j].contains(x1) { fail(format!("coordinate {j} was re-sampled outside its domain: {x1}")) }
                                }
                            }
                        }
                    }
                    cases += 1;
                }
                // bit-valued
                let bp = BitProblem(len);
                let bpop: Vec<Vec<bool>> = (0..n).map(|i| (0..len).map(|j| (i + j) % 2 == 0).collect()).collect();
                let bbelow = vec![vec![true; len]];
                let bops: Vec<(&str, f64, f64, Box<dyn Component<BitProblem>>)> = vec![
                    ("BitFlipMutation", 0.0, 0.0, BitFlipMutation::new(0.0)), ("BitFlipMutation", 1.0, 0.0, BitFlipMutation::new(1.0)),
                    ("BitFlipMutation", 0.5, 0.0, BitFlipMutation::new(0.5)),
                    ("PartialRandomBitstring", 0.0, 0.5, PartialRandomBitstring::new(0.5, 0.0)),
                    ("PartialRandomBitstring", 1.0, 1.0, PartialRandomBitstring::new_full(1.0)),
                    ("PartialRandomBitstring", 1.0, 0.0, PartialRandomBitstring::new_full(0.0)),
                    ("PartialRandomBitstring", 0.5, 1.0, PartialRandomBitstring::new(1.0, 0.5)),
                    ("PartialRandomBitstring", 1.0, 0.5, PartialRandomBitstring::new_uniform_full()),
                ];
                for (name, rm, p, op) in &bops {
                    let fail = |why: String| -> ! {
                        eprintln!("COUNTEREXAMPLE op={name} rm={rm} p={p} dimension={len} population_size={n} seed={seed}: {why}");
                        panic!("bit-valued mutation violates C13")
                    };
                    match mutate(&bp, op.as_ref(), bbelow.clone(), bpop.clone(), seed) {
                        Err(e) => fail(format!("the operator fails on a valid population: {e}")),
                        Ok((h, b, cur)) => {
                            if h != 2 || b != bbelow { fail("the population below was disturbed or the stack height changed".into()) }
                            if cur.len() != n { fail("the number of individuals changed".into()) }
                            for (before, after) in bpop.iter().zip(&cur) {
                                if after.len() != len { fail("the dimension changed".into()) }
                                if *rm == 0.0 && after != before { fail("a mutation rate of zero changed a solution".into()) }
                                if *name == "BitFlipMutation" && *rm == 1.0 && after.iter().zip(before).any(|(a, b)| a == b) { fail("rate 1 must flip every bit".into()) }
                                if *name == "PartialRandomBitstring" && *rm == 1.0 && *p == 1.0 && after.iter().any(|a| !*a) { fail("p = 1 at rate 1 must set every bit".into()) }
                                if *name == "PartialRandomBitstring" && *rm == 1.0 && *p == 0.0 && after.iter().any(|a| *a) { fail("p = 0 at rate 1 must clear every bit".into()) }
                                if *name == "PartialRandomBitstring" && *p == 1.0 && after.iter().zip(before).any(|(a, b)| *b && !*a) { fail("p = 1 can only set bits".into()) }
                            }
                        }
                    }
                    cases += 1;
                }
            }
        }
    }
    println!("c13_native_value_mutations: {} cases checked", cases);
}

// ------------------------------------------------------------------------------------------------------------------
// BOUNDED STAND-IN (not a proof) for the differential-evolution variation components (State-based, chunk patterns and
// itertools adapters: out of reach of both verifiers).  DEMutation: accepts exactly the populations in the documented format
// [base, 2y others]*, leaves one individual per group, keeps the dimension, and with f = 0 returns the bases unchanged.
// DE crossovers: every gene of a child is the gene of the mutated or of the base individual at that position, at least one
// comes from the base, pc = 1 copies the whole base, pc = 0 exactly one gene; the base population stays untouched.
use crate::components::{mutation::de::DEMutation, recombination::de::{DEBinomialCrossover, DEExponentialCrossover}};

// @native-harness
pub fn c13_native_de_operators() {
    let mut cases = 0u64;
    let mut failures: Vec<(String, String, u64)> = Vec::new();
    let mut record = |op: &str, what: String| {
        if let Some(f) = failures.iter_mut().find(|f| f.0 == op) { f.2 += 1 } else { failures.push((op.to_string(), what, 1)); }
    };
    for dim in 1..=3usize {
        let rp = RealProblem(dim);
        // ---- DEMutation
        for y in 1..=2u32 {
            let size = (2 * y + 1) as usize;
            for len in 0..=(3 * size) {
                for f in [0.0f64, 0.5, 2.0] {
                    let op: Box<dyn Component<RealProblem>> = DEMutation::new(y, f).expect("a documented parameter value was rejected");
                    let pop: Vec<Vec<f64>> = (0..len).map(|i| (0..dim).map(|j| (i * 3 + j) as f64 * 0.5).collect()).collect();
                    let below = vec![vec![9.0; dim]];
                    let ctx = format!("op=DEMutation y={y} f={f} dimension={dim} population_size={len}");
                    let r = mutate(&rp, op.as_ref(), below.clone(), pop.clone(), 1);
                    if len % size == 0 {
                        match r {
                            Err(e) => record("DEMutation", format!("{ctx}: the operator fails on a population in the documented format: {e}")),
                            Ok((h, b, cur)) => {
                                if h != 2 || b != below { record("DEMutation", format!("{ctx}: the population below was disturbed")) }
                                else if cur.len() != len / size { record("DEMutation", format!("{ctx}: {} individuals left, expected one per group = {}", cur.len(), len / size)) }
                                else if cur.iter().any(|s| s.len() != dim) { record("DEMutation", format!("{ctx}: the dimension changed")) }
                                else if f == 0.0 && cur.iter().enumerate().any(|(g, s)| *s != pop[g * size]) { record("DEMutation", format!("{ctx}: with f = 0 the bases must be returned unchanged")) }
                                else if cur.iter().enumerate().any(|(g, s)| (0..dim).any(|j| {
                                    let mut want = pop[g * size][j];
                                    for p in 0..y as usize { want += f * (pop[g * size + 1 + 2 * p][j] - pop[g * size + 2 + 2 * p][j]); }
                                    (s[j] - want).abs() > 1e-9 })) { record("DEMutation", format!("{ctx}: result is not base + f * sum of pair differences")) }
                            }
                        }
                    } else if r.is_ok() {
                        record("DEMutation", format!("{ctx}: a population that is not in the documented format [2y+1]* was accepted"));
                    }
                    cases += 1;
                }
            }
        }
        // ---- DE crossovers on [.., bases, mutations]
        for n in 0..=3usize {
            for seed in 0..32u64 {
                for pc in [0.0f64, 0.5, 1.0] {
                    for which in 0..2 {
                        let name = if which == 0 { "DEBinomialCrossover" } else { "DEExponentialCrossover" };
                        let op: Box<dyn Component<RealProblem>> = if which == 0 { DEBinomialCrossover::new(pc) } else { DEExponentialCrossover::new(pc) };
                        let bases: Vec<Vec<f64>> = (0..n).map(|i| (0..dim).map(|j| (10 * i + j) as f64).collect()).collect();
                        let mutations: Vec<Vec<f64>> = (0..n).map(|i| (0..dim).map(|j| -1.0 - (10 * i + j) as f64).collect()).collect();
                        let ctx = format!("op={name} pc={pc} dimension={dim} population_size={n} seed={seed}");
                        match mutate(&rp, op.as_ref(), bases.clone(), mutations.clone(), seed) {
                            Err(e) => record(name, format!("{ctx}: the operator fails on a valid population: {e}")),
                            Ok((h, b, cur)) => {
                                if h != 2 || b != bases { record(name, format!("{ctx}: the base population was disturbed or the stack height changed")); }
                                else if cur.len() != n || cur.iter().any(|c| c.len() != dim) { record(name, format!("{ctx}: number of children or their length is wrong")); }
                                else {
                                    for i in 0..n {
                                        let from_base = (0..dim).filter(|&j| cur[i][j] == bases[i][j]).count();
                                        if (0..dim).any(|j| cur[i][j] != bases[i][j] && cur[i][j] != mutations[i][j]) { record(name, format!("{ctx}: child {i} holds a gene of neither parent: {:?}", cur[i])); }
                                        else if from_base == 0 { record(name, format!("{ctx}: child {i} took no gene from the base")); }
                                        else if pc == 1.0 && from_base != dim { record(name, format!("{ctx}: pc = 1 must copy the whole base")); }
                                        else if pc == 0.0 && from_base != 1 { record(name, format!("{ctx}: pc = 0 must copy exactly one gene of the base, copied {from_base}")); }
                                    }
                                }
                            }
                        }
                        cases += 1;
                    }
                }
            }
        }
    }
    for (_, first, count) in &failures { eprintln!("COUNTEREXAMPLE {first}   [{count} failing cases for this operator]"); }
    if !failures.is_empty() { panic!("DE variation operator violates C13") }
    println!("c13_native_de_operators: {} cases checked", cases);
}

// ------------------------------------------------------------------------------------------------------------------
// BOUNDED STAND-IN (not a proof) for the crossover COMPONENTS (recombine = RNG draws + functional kernel + OptionalPair):
// "children of the parents' length in which each position holds one of the two parental genes (for arithmetic crossover a
// convex combination) with both genes of a position conserved across the two children"; cycle crossover yields permutations.
use crate::components::recombination::{ArithmeticCrossover, CycleCrossover};

// @native-harness
pub fn c13_native_crossover_genes() {
    let mut cases = 0u64;
    let mut failures: Vec<(String, String, u64)> = Vec::new();
    let mut record = |op: &str, what: String| {
        if let Some(f) = failures.iter_mut().find(|f| f.0 == op) { f.2 += 1 } else { failures.push((op.to_string(), what, 1)); }
    };
    for seed in 0..64u64 {
        for both in [false, true] {
            // ---- discrete genes (tags): uniform, 1-, 2- and 3-point crossover on two pairs of length-5 parents
            let vp = VecProblem;
            let parents: Vec<Vec<u8>> = (0..4).map(|i| (0..4).map(|j| (10 * i + j) as u8).collect()).collect();
            let ops: Vec<(String, Box<dyn Component<VecProblem>>)> = vec![
                ("UniformCrossover".into(), UniformCrossover::new(1.0, both)), ("NPointCrossover(1)".into(), NPointCrossover::new(1, 1.0, both)),
                ("NPointCrossover(2)".into(), NPointCrossover::new(2, 1.0, both)), ("NPointCrossover(3)".into(), NPointCrossover::new(3, 1.0, both)),
            ];
            for (name, op) in &ops {
                let ctx = format!("op={name} insert_both={both} seed={seed}");
                match mutate(&vp, op.as_ref(), vec![vec![200u8; 4]], parents.clone(), seed) {
                    Err(e) => record(name, format!("{ctx}: the operator fails on a valid population: {e}")),
                    Ok((_, _, ch)) => {
                        let per = if both { 2 } else { 1 };
                        if ch.len() != 2 * per { record(name, format!("{ctx}: wrong number of children {}", ch.len())); cases += 1; continue }
                        for pair in 0..2 {
                            let (p1, p2) = (&parents[2 * pair], &parents[2 * pair + 1]);
                            let c1 = &ch[per * pair];
                            if c1.len() != 4 { record(name, format!("{ctx}: child length {} differs from the parents' length", c1.len())); continue }
                            for j in 0..4 {
                                if c1[j] != p1[j] && c1[j] != p2[j] { record(name, format!("{ctx}: position {j} of child {c1:?} holds neither parental gene ({p1:?}, {p2:?})")) }
                            }
                            if both {
                                let c2 = &ch[per * pair + 1];
                                if c2.len() != 4 { record(name, format!("{ctx}: child length differs from the parents' length")); continue }
                                for j in 0..4 {
                                    let ok = (c1[j] == p1[j] && c2[j] == p2[j]) || (c1[j] == p2[j] && c2[j] == p1[j]);
                                    if !ok { record(name, format!("{ctx}: the two genes of position {j} are not conserved across the children {c1:?} {c2:?} of {p1:?} {p2:?}")) }
                                }
                            }
                        }
                    }
                }
                cases += 1;
            }
            // ---- arithmetic crossover: convex combination, genes conserved in sum
            let rp = RealProblem(3);
            let rparents: Vec<Vec<f64>> = vec![vec![0.0, 1.0, -2.0], vec![4.0, 1.0, 6.0]];
            let op: Box<dyn Component<RealProblem>> = ArithmeticCrossover::new(1.0, both);
            let ctx = format!("op=ArithmeticCrossover insert_both={both} seed={seed}");
            match mutate(&rp, op.as_ref(), vec![vec![9.0; 3]], rparents.clone(), seed) {
                Err(e) => record("ArithmeticCrossover", format!("{ctx}: the operator fails on a valid population: {e}")),
                Ok((_, _, ch)) => {
                    if ch.len() != if both { 2 } else { 1 } || ch.iter().any(|c| c.len() != 3) { record("ArithmeticCrossover", format!("{ctx}: wrong number or length of children")) }
                    else {
                        for j in 0..3 {
                            let (lo, hi) = (rparents[0][j].min(rparents[1][j]), rparents[0][j].max(rparents[1][j]));
                            if ch.iter().any(|c| c[j] < lo - 1e-12 || c[j] > hi + 1e-12) { record("ArithmeticCrossover", format!("{ctx}: position {j} is not a convex combination of the parental genes: {ch:?}")) }
                            if both && ((ch[0][j] + ch[1][j]) - (rparents[0][j] + rparents[1][j])).abs() > 1e-9 { record("ArithmeticCrossover", format!("{ctx}: the genes of position {j} are not conserved across the children: {ch:?}")) }
                        }
                    }
                }
            }
            cases += 1;
        }
    }
    // ---- cycle crossover on all pairs of permutations of length 4
    let perms: Vec<Vec<usize>> = {
        let mut out = Vec::new();
        for a in 0..4 { for b in 0..4 { for c in 0..4 { for d in 0..4 {
            let p = vec![a, b, c, d]; let mut s = p.clone(); s.sort_unstable();
            if s == vec![0, 1, 2, 3] { out.push(p) }
        }}}}
        out
    };
    let pp = PermProblem(4);
    for p1 in &perms { for p2 in &perms { for both in [false, true] {
        let op: Box<dyn Component<PermProblem>> = CycleCrossover::new(1.0, both);
        let ctx = format!("op=CycleCrossover insert_both={both} parents={p1:?},{p2:?}");
        match mutate(&pp, op.as_ref(), vec![vec![3, 2, 1, 0]], vec![p1.clone(), p2.clone()], 3) {
            Err(e) => record("CycleCrossover", format!("{ctx}: the operator fails on a valid population: {e}")),
            Ok((_, _, ch)) => {
                if ch.len() != if both { 2 } else { 1 } { record("CycleCrossover", format!("{ctx}: wrong number of children")) }
                for c in &ch {
                    let mut s = c.clone(); s.sort_unstable();
                    if s != vec![0, 1, 2, 3] { record("CycleCrossover", format!("{ctx}: child {c:?} is not a permutation")) }
                    else if (0..4).any(|j| c[j] != p1[j] && c[j] != p2[j]) { record("CycleCrossover", format!("{ctx}: child {c:?} holds a gene of neither parent at some position")) }
                }
                if both && ch.len() == 2 && (0..4).any(|j| !((ch[0][j] == p1[j] && ch[1][j] == p2[j]) || (ch[0][j] == p2[j] && ch[1][j] == p1[j]))) {
                    record("CycleCrossover", format!("{ctx}: genes are not conserved across the children {ch:?}"))
                }
            }
        }
        cases += 1;
    }}}
    for (_, first, count) in &failures { eprintln!("COUNTEREXAMPLE {first}   [{count} failing cases for this operator]"); }
    if !failures.is_empty() { panic!("crossover component violates C13") }
    println!("c13_native_crossover_genes: {} cases checked", cases);
}

// ------------------------------------------------------------------------------------------------------------------
// BOUNDED STAND-IN (not a proof) for three KERNEL harnesses that CBMC does not finish within 50 minutes in the thorough tier
// (translocate at length 4 with both implementations, cycle crossover over all pairs of length-4 permutations, the arithmetic
// formula with three symbolic floats).  The first two kernels are oblivious to the VALUES they move (only positions / equality
// matter), so an exhaustive enumeration with distinct concrete tags covers every behaviour at that length.
// @native-harness
pub fn c13_native_kernels() {
    use crate::components::{mutation::functional::{translocate_slice, translocate_slice2}, recombination::functional::{arithmetic_crossover, cycle_crossover}};
    let mut cases = 0u64;
    // translocate: all valid (range, index) cases at lengths 1..=6, both implementations
    for n in 1..=6usize {
        for start in 0..n { for end in start..=n { for index in 0..n {
            if index + (end - start) > n { continue }
            let orig: Vec<u8> = (0..n as u8).map(|i| 10 + i).collect();
            let (mut a, mut b) = (orig.clone(), orig.clone());
            translocate_slice(&mut a, start..end, index);
            translocate_slice2(&mut b, start..end, index);
            let mut want: Vec<u8> = orig.clone();
            let chunk: Vec<u8> = want.drain(start..end).collect();
            for (k, v) in chunk.iter().enumerate() { want.insert(index + k, *v); }
            if a != b || a != want { eprintln!("COUNTEREXAMPLE translocate n={n} range={start}..{end} index={index}: in-place {a:?}, copying {b:?}, expected {want:?}"); panic!("translocate kernels disagree or misplace the slice") }
            cases += 1;
        }}}
    }
    // circular swap: both implementations against the reference "the element at indices[k-1] moves to indices[k], cyclically", for
    // every tuple of >= 2 distinct indices on lengths 2..=6
    {
        use crate::components::mutation::functional::{circular_swap, circular_swap2};
        fn tuples(n: usize, k: usize, cur: &mut Vec<usize>, out: &mut Vec<Vec<usize>>) {
            if cur.len() == k { out.push(cur.clone()); return }
            for v in 0..n { if !cur.contains(&v) { cur.push(v); tuples(n, k, cur, out); cur.pop(); } }
        }
        for n in 2..=6usize { for k in 2..=n.min(4) {
            let mut ts = Vec::new(); tuples(n, k, &mut Vec::new(), &mut ts);
            for idx in ts {
                let orig: Vec<u8> = (0..n as u8).map(|i| 10 + i).collect();
                let (mut a, mut b, mut want) = (orig.clone(), orig.clone(), orig.clone());
                circular_swap(&mut a, &idx);
                circular_swap2(&mut b, &idx);
                for j in 0..k { want[idx[j]] = orig[idx[(j + k - 1) % k]]; }
                if a != b || a != want { eprintln!("COUNTEREXAMPLE circular swap on {orig:?} with indices {idx:?}: circular_swap {a:?}, circular_swap2 {b:?}, expected {want:?}"); panic!("the two circular-swap implementations disagree (or do not rotate the chosen positions)") }
                cases += 1;
            }
        }}
    }
    // cycle crossover: all pairs of permutations of length 1..=5
    fn perms(n: usize) -> Vec<Vec<u8>> {
        fn rec(cur: &mut Vec<u8>, n: usize, out: &mut Vec<Vec<u8>>) { if cur.len() == n { out.push(cur.clone()); return } for v in 0..n as u8 { if !cur.contains(&v) { cur.push(v); rec(cur, n, out); cur.pop(); } } }
        let mut out = Vec::new(); rec(&mut Vec::new(), n, &mut out); out
    }
    for n in 1..=5usize {
        let ps = perms(n);
        for p1 in &ps { for p2 in &ps {
            let [c1, c2] = cycle_crossover(p1, p2);
            let ok = c1.len() == n && c2.len() == n
                && { let mut s = c1.clone(); s.sort_unstable(); s == (0..n as u8).collect::<Vec<_>>() } && { let mut s = c2.clone(); s.sort_unstable(); s == (0..n as u8).collect::<Vec<_>>() }
                && (0..n).all(|j| (c1[j] == p1[j] && c2[j] == p2[j]) || (c1[j] == p2[j] && c2[j] == p1[j]));
            if !ok { eprintln!("COUNTEREXAMPLE cycle_crossover parents {p1:?} {p2:?}: children {c1:?} {c2:?}"); panic!("cycle crossover: children are not gene-conserving permutations") }
            cases += 1;
        }}
    }
    // arithmetic crossover: the stated combination, bit-exactly, over a value grid (incl. signed zeros, huge, tiny, infinities)
    let vals = [0.0, -0.0, 1.0, -1.0, 0.1, 3.5, -2.25, 1.0e300, -1.0e300, 1.0e-300, 5.0e-324, -5.0e-324, f64::MAX, f64::MIN_POSITIVE, f64::INFINITY];
    let alphas = [0.0, 1.0, 0.5, 0.49999999999999994, 0.25, 0.1, 0.9999999999999999, 1.0e-17, 2.0, -1.0];
    for p in vals { for q in vals { for al in alphas {
        let [c1, c2] = arithmetic_crossover(&[p, q], &[q, p], &[al, al]);
        let (e1, e2) = (al * p + (1.0 - al) * q, al * q + (1.0 - al) * p);
        let same = |a: f64, b: f64| a.to_bits() == b.to_bits() || (a.is_nan() && b.is_nan());
        if c1.len() != 2 || c2.len() != 2 || !same(c1[0], e1) || !same(c2[0], e2) || !same(c1[1], e2) || !same(c2[1], e1) {
            eprintln!("COUNTEREXAMPLE arithmetic_crossover p={p} q={q} alpha={al}: children {c1:?} {c2:?}, expected [{e1}, {e2}] [{e2}, {e1}]"); panic!("arithmetic crossover is not the stated combination")
        }
        // convexity for alpha in [0, 1] and finite genes: between the parental genes up to rounding (relative 4 eps, absolute
        // f64::MIN_POSITIVE for the subnormal range)
        if (0.0..=1.0).contains(&al) && p.is_finite() && q.is_finite() {
            let (lo, hi) = (p.min(q), p.max(q));
            let t = 4.0 * f64::EPSILON * hi.abs().max(lo.abs()) + f64::MIN_POSITIVE;
            if !(c1[0] >= lo - t && c1[0] <= hi + t && c2[0] >= lo - t && c2[0] <= hi + t) {
                eprintln!("COUNTEREXAMPLE arithmetic_crossover p={p} q={q} alpha={al}: child genes {} / {} outside [{lo}, {hi}]", c1[0], c2[0]); panic!("arithmetic crossover is not a convex combination")
            }
        }
        cases += 1;
    }}}
    println!("c13_native_kernels: {} kernel cases checked", cases);
}
