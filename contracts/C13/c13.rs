//! C13 — variation operators: functional helpers keep solutions well-formed and conserve genes.
//! Hoare triples on the real helper functions, container length concrete, contents and index tuples symbolic,
//! preconditions = the functions' own documented `#[contracts::requires]`.
use super::*;
use crate::components::{
    mutation::functional::{circular_swap, circular_swap2, translocate_slice, translocate_slice2},
    recombination::{
        functional::{arithmetic_crossover, cycle_crossover, multi_point_crossover, uniform_crossover},
        OptionalPair,
    },
};

fn sym_arr<const N: usize>() -> [u8; N] {
    let mut a = [0u8; N];
    for i in 0..N { a[i] = sym(); }
    a
}
fn count(xs: &[u8], v: u8) -> usize {
    let mut c = 0;
    for x in xs { if *x == v { c += 1; } }
    c
}
fn is_permutation_of(a: &[u8], b: &[u8]) -> bool {
    if a.len() != b.len() { return false; }
    let mut ok = true;
    for v in b { ok = ok && count(a, *v) == count(b, *v); }
    ok
}
fn distinct_in_bounds(ix: &[usize], n: usize) -> bool {
    let mut ok = true;
    for i in 0..ix.len() {
        ok = ok && ix[i] < n;
        for j in 0..i { ok = ok && ix[i] != ix[j]; }
    }
    ok
}

fn circular<const N: usize, const K: usize>() {
    let orig: [u8; N] = sym_arr();
    let mut ix = [0usize; K];
    for i in 0..K { ix[i] = sym(); }
    assume(distinct_in_bounds(&ix, N));
    let (mut p1, mut p2) = (orig, orig);
    circular_swap(&mut p1, &ix);
    circular_swap2(&mut p2, &ix);
    assert!(p1 == p2, "circular_swap and circular_swap2 disagree");
    assert!(is_permutation_of(&p1, &orig), "circular_swap does not return a permutation of the same elements");
    // the elements at `indices` move one step along the cycle, everything else stays
    for i in 0..N {
        let mut touched = false;
        for j in 0..K { touched = touched || ix[j] == i; }
        if !touched { assert!(p1[i] == orig[i], "circular_swap changed an element that is not in `indices`"); }
    }
    for j in 0..K {
        assert!(p1[ix[(j + 1) % K]] == orig[ix[j]], "circular_swap: element did not move to the next index of the cycle");
    }
}
/// @verif anchor=circular_swap bound="length 4, 2 indices; all contents and distinct in-bounds index tuples"
#[cfg_attr(kani, kani::proof)] #[cfg_attr(kani, kani::unwind(7))]
pub fn c13_circular_swap_n4_k2() { circular::<4, 2>() }
/// @verif anchor=circular_swap bound="length 4, 3 indices; all contents and distinct in-bounds index tuples"
#[cfg_attr(kani, kani::proof)] #[cfg_attr(kani, kani::unwind(7))]
pub fn c13_circular_swap_n4_k3() { circular::<4, 3>() }
/// @verif anchor=circular_swap tier=thorough bound="length 4, 4 indices; all contents and distinct in-bounds index tuples"
#[cfg_attr(kani, kani::proof)] #[cfg_attr(kani, kani::unwind(7))]
pub fn c13_circular_swap_n4_k4() { circular::<4, 4>() }
/// @verif anchor=circular_swap tier=thorough bound="length 5, 3 indices"
#[cfg_attr(kani, kani::proof)] #[cfg_attr(kani, kani::unwind(8))]
pub fn c13_circular_swap_n5_k3() { circular::<5, 3>() }

/// both implementations on one concrete (range, index) with symbolic contents
fn translocate_case<const N: usize>(s: usize, e: usize, idx: usize) {
    let orig: [u8; N] = sym_arr();
    let (mut p1, mut p2) = (orig, orig);
    translocate_slice(&mut p1, s..e, idx);
    translocate_slice2(&mut p2, s..e, idx);
    assert!(p1 == p2, "translocate_slice and translocate_slice2 disagree");
    assert!(is_permutation_of(&p1, &orig), "translocate_slice does not return a permutation of the same elements");
    for k in 0..N {
        if k < e - s { assert!(p1[idx + k] == orig[s + k], "translocated slice is not at the requested index"); }
    }
}
fn translocate_single_case<const N: usize>(s: usize, e: usize, idx: usize) {
    let orig: [u8; N] = sym_arr();
    let mut p1 = orig;
    translocate_slice(&mut p1, s..e, idx);
    assert!(is_permutation_of(&p1, &orig), "translocate_slice does not return a permutation of the same elements");
    for k in 0..N {
        if k < e - s { assert!(p1[idx + k] == orig[s + k], "translocated slice is not at the requested index"); }
    }
    // everything else keeps its relative order
    let mut rest_before = [0u8; N]; let mut rest_after = [0u8; N]; let (mut nb, mut na) = (0, 0);
    for k in 0..N { if k < s || k >= e { rest_before[nb] = orig[k]; nb += 1; } }
    for k in 0..N { if k < idx || k >= idx + (e - s) { rest_after[na] = p1[k]; na += 1; } }
    assert!(nb == na && rest_before == rest_after, "translocate_slice disturbed the order of the other elements");
}
/// all valid (range, index) of a length-3 solution (documented preconditions + the function's own assertion), each as a
/// concrete case selected by a symbolic index (so the rotations run on concrete bounds); contents symbolic
/// @verif anchor=translocate_slice bound="length 3; all 23 valid (range, index) cases (range.end <= length); all contents; both implementations agree"
#[cfg_attr(kani, kani::proof)] #[cfg_attr(kani, kani::unwind(6))]
pub fn c13_translocate_n3() {
    let k: usize = sym();
    assume(k < 23);
    if k == 0 { translocate_case::<3>(0, 0, 0); }
    if k == 1 { translocate_case::<3>(0, 0, 1); }
    if k == 2 { translocate_case::<3>(0, 0, 2); }
    if k == 3 { translocate_case::<3>(0, 1, 0); }
    if k == 4 { translocate_case::<3>(0, 1, 1); }
    if k == 5 { translocate_case::<3>(0, 1, 2); }
    if k == 6 { translocate_case::<3>(0, 2, 0); }
    if k == 7 { translocate_case::<3>(0, 2, 1); }
    if k == 8 { translocate_case::<3>(0, 3, 0); }
    if k == 9 { translocate_case::<3>(1, 1, 0); }
    if k == 10 { translocate_case::<3>(1, 1, 1); }
    if k == 11 { translocate_case::<3>(1, 1, 2); }
    if k == 12 { translocate_case::<3>(1, 2, 0); }
    if k == 13 { translocate_case::<3>(1, 2, 1); }
    if k == 14 { translocate_case::<3>(1, 2, 2); }
    if k == 15 { translocate_case::<3>(1, 3, 0); }
    if k == 16 { translocate_case::<3>(1, 3, 1); }
    if k == 17 { translocate_case::<3>(2, 2, 0); }
    if k == 18 { translocate_case::<3>(2, 2, 1); }
    if k == 19 { translocate_case::<3>(2, 2, 2); }
    if k == 20 { translocate_case::<3>(2, 3, 0); }
    if k == 21 { translocate_case::<3>(2, 3, 1); }
    if k == 22 { translocate_case::<3>(2, 3, 2); }
}
// NOT registered: 36 minutes alone (50-minute limit at risk under load); all valid cases at lengths 1..6 are enumerated natively.
#[allow(dead_code)]
pub fn c13_translocate_single_n4_unregistered() {
    let k: usize = sym();
    assume(k < 46);
    if k == 0 { translocate_single_case::<4>(0, 0, 0); }
    if k == 1 { translocate_single_case::<4>(0, 0, 1); }
    if k == 2 { translocate_single_case::<4>(0, 0, 2); }
    if k == 3 { translocate_single_case::<4>(0, 0, 3); }
    if k == 4 { translocate_single_case::<4>(0, 1, 0); }
    if k == 5 { translocate_single_case::<4>(0, 1, 1); }
    if k == 6 { translocate_single_case::<4>(0, 1, 2); }
    if k == 7 { translocate_single_case::<4>(0, 1, 3); }
    if k == 8 { translocate_single_case::<4>(0, 2, 0); }
    if k == 9 { translocate_single_case::<4>(0, 2, 1); }
    if k == 10 { translocate_single_case::<4>(0, 2, 2); }
    if k == 11 { translocate_single_case::<4>(0, 3, 0); }
    if k == 12 { translocate_single_case::<4>(0, 3, 1); }
    if k == 13 { translocate_single_case::<4>(0, 4, 0); }
    if k == 14 { translocate_single_case::<4>(1, 1, 0); }
    if k == 15 { translocate_single_case::<4>(1, 1, 1); }
    if k == 16 { translocate_single_case::<4>(1, 1, 2); }
    if k == 17 { translocate_single_case::<4>(1, 1, 3); }
    if k == 18 { translocate_single_case::<4>(1, 2, 0); }
    if k == 19 { translocate_single_case::<4>(1, 2, 1); }
    if k == 20 { translocate_single_case::<4>(1, 2, 2); }
    if k == 21 { translocate_single_case::<4>(1, 2, 3); }
    if k == 22 { translocate_single_case::<4>(1, 3, 0); }
    if k == 23 { translocate_single_case::<4>(1, 3, 1); }
    if k == 24 { translocate_single_case::<4>(1, 3, 2); }
    if k == 25 { translocate_single_case::<4>(1, 4, 0); }
    if k == 26 { translocate_single_case::<4>(1, 4, 1); }
    if k == 27 { translocate_single_case::<4>(2, 2, 0); }
    if k == 28 { translocate_single_case::<4>(2, 2, 1); }
    if k == 29 { translocate_single_case::<4>(2, 2, 2); }
    if k == 30 { translocate_single_case::<4>(2, 2, 3); }
    if k == 31 { translocate_single_case::<4>(2, 3, 0); }
    if k == 32 { translocate_single_case::<4>(2, 3, 1); }
    if k == 33 { translocate_single_case::<4>(2, 3, 2); }
    if k == 34 { translocate_single_case::<4>(2, 3, 3); }
    if k == 35 { translocate_single_case::<4>(2, 4, 0); }
    if k == 36 { translocate_single_case::<4>(2, 4, 1); }
    if k == 37 { translocate_single_case::<4>(2, 4, 2); }
    if k == 38 { translocate_single_case::<4>(3, 3, 0); }
    if k == 39 { translocate_single_case::<4>(3, 3, 1); }
    if k == 40 { translocate_single_case::<4>(3, 3, 2); }
    if k == 41 { translocate_single_case::<4>(3, 3, 3); }
    if k == 42 { translocate_single_case::<4>(3, 4, 0); }
    if k == 43 { translocate_single_case::<4>(3, 4, 1); }
    if k == 44 { translocate_single_case::<4>(3, 4, 2); }
    if k == 45 { translocate_single_case::<4>(3, 4, 3); }
}
// NOT registered: 46 cases x two implementations at length 4: 50-minute limit hit in the thorough run; lengths 1..6 enumerated natively (c13_native_kernels)
#[allow(dead_code)]
pub fn c13_translocate_n4_unregistered() {
    let k: usize = sym();
    assume(k < 46);
    if k == 0 { translocate_case::<4>(0, 0, 0); }
    if k == 1 { translocate_case::<4>(0, 0, 1); }
    if k == 2 { translocate_case::<4>(0, 0, 2); }
    if k == 3 { translocate_case::<4>(0, 0, 3); }
    if k == 4 { translocate_case::<4>(0, 1, 0); }
    if k == 5 { translocate_case::<4>(0, 1, 1); }
    if k == 6 { translocate_case::<4>(0, 1, 2); }
    if k == 7 { translocate_case::<4>(0, 1, 3); }
    if k == 8 { translocate_case::<4>(0, 2, 0); }
    if k == 9 { translocate_case::<4>(0, 2, 1); }
    if k == 10 { translocate_case::<4>(0, 2, 2); }
    if k == 11 { translocate_case::<4>(0, 3, 0); }
    if k == 12 { translocate_case::<4>(0, 3, 1); }
    if k == 13 { translocate_case::<4>(0, 4, 0); }
    if k == 14 { translocate_case::<4>(1, 1, 0); }
    if k == 15 { translocate_case::<4>(1, 1, 1); }
    if k == 16 { translocate_case::<4>(1, 1, 2); }
    if k == 17 { translocate_case::<4>(1, 1, 3); }
    if k == 18 { translocate_case::<4>(1, 2, 0); }
    if k == 19 { translocate_case::<4>(1, 2, 1); }
    if k == 20 { translocate_case::<4>(1, 2, 2); }
    if k == 21 { translocate_case::<4>(1, 2, 3); }
    if k == 22 { translocate_case::<4>(1, 3, 0); }
    if k == 23 { translocate_case::<4>(1, 3, 1); }
    if k == 24 { translocate_case::<4>(1, 3, 2); }
    if k == 25 { translocate_case::<4>(1, 4, 0); }
    if k == 26 { translocate_case::<4>(1, 4, 1); }
    if k == 27 { translocate_case::<4>(2, 2, 0); }
    if k == 28 { translocate_case::<4>(2, 2, 1); }
    if k == 29 { translocate_case::<4>(2, 2, 2); }
    if k == 30 { translocate_case::<4>(2, 2, 3); }
    if k == 31 { translocate_case::<4>(2, 3, 0); }
    if k == 32 { translocate_case::<4>(2, 3, 1); }
    if k == 33 { translocate_case::<4>(2, 3, 2); }
    if k == 34 { translocate_case::<4>(2, 3, 3); }
    if k == 35 { translocate_case::<4>(2, 4, 0); }
    if k == 36 { translocate_case::<4>(2, 4, 1); }
    if k == 37 { translocate_case::<4>(2, 4, 2); }
    if k == 38 { translocate_case::<4>(3, 3, 0); }
    if k == 39 { translocate_case::<4>(3, 3, 1); }
    if k == 40 { translocate_case::<4>(3, 3, 2); }
    if k == 41 { translocate_case::<4>(3, 3, 3); }
    if k == 42 { translocate_case::<4>(3, 4, 0); }
    if k == 43 { translocate_case::<4>(3, 4, 1); }
    if k == 44 { translocate_case::<4>(3, 4, 2); }
    if k == 45 { translocate_case::<4>(3, 4, 3); }
}

fn gene_conserving(c1: &[u8], c2: &[u8], p1: &[u8], p2: &[u8]) {
    assert!(c1.len() == p1.len() && c2.len() == p2.len(), "child length differs from the parents' length");
    for i in 0..p1.len() {
        assert!((c1[i] == p1[i] && c2[i] == p2[i]) || (c1[i] == p2[i] && c2[i] == p1[i]),
                "a position does not hold the two parental genes across the two children");
    }
}

fn uniform<const N: usize>() {
    let (p1, p2): ([u8; N], [u8; N]) = (sym_arr(), sym_arr());
    let mut mask = [false; N];
    for i in 0..N { mask[i] = sym(); }
    let [c1, c2] = uniform_crossover(&p1, &p2, &mask);
    gene_conserving(&c1, &c2, &p1, &p2);
    for i in 0..N {
        assert!(c1[i] == if mask[i] { p2[i] } else { p1[i] }, "uniform crossover ignores the mask");
    }
}
/// @verif anchor=uniform_crossover bound="length 3; all contents and masks"
#[cfg_attr(kani, kani::proof)] #[cfg_attr(kani, kani::unwind(6))]
pub fn c13_uniform_n3() { uniform::<3>() }
/// @verif anchor=uniform_crossover tier=thorough bound="length 4; all contents and masks"
#[cfg_attr(kani, kani::proof)] #[cfg_attr(kani, kani::unwind(7))]
pub fn c13_uniform_n4() { uniform::<4>() }

fn multipoint<const N: usize, const K: usize>() {
    let (p1, p2): ([u8; N], [u8; N]) = (sym_arr(), sym_arr());
    let mut ix = [0usize; K];
    for i in 0..K { ix[i] = sym(); }
    // documented: !indices.is_empty(), indices.len() < parent.len(); cut points inside the parents
    for i in 0..K { assume(ix[i] < N); }
    let [c1, c2] = multi_point_crossover(&p1, &p2, &ix);
    gene_conserving(&c1, &c2, &p1, &p2);
    // position i is swapped iff an odd number of cut points lies at or before it
    for i in 0..N {
        let mut cuts = 0;
        for k in 0..K { if ix[k] <= i { cuts += 1; } }
        assert!(c1[i] == if cuts % 2 == 1 { p2[i] } else { p1[i] }, "multi-point crossover: wrong segment at a position");
    }
}
/// @verif anchor=multi_point_crossover bound="length 3, 1 cut point; all contents and cut points"
#[cfg_attr(kani, kani::proof)] #[cfg_attr(kani, kani::unwind(6))]
pub fn c13_multipoint_n3_k1() { multipoint::<3, 1>() }
/// @verif anchor=multi_point_crossover bound="length 3, 2 cut points; all contents and cut points"
#[cfg_attr(kani, kani::proof)] #[cfg_attr(kani, kani::unwind(6))]
pub fn c13_multipoint_n3_k2() { multipoint::<3, 2>() }
/// @verif anchor=multi_point_crossover tier=thorough bound="length 4, 3 cut points"
#[cfg_attr(kani, kani::proof)] #[cfg_attr(kani, kani::unwind(7))]
pub fn c13_multipoint_n4_k3() { multipoint::<4, 3>() }

/// parents of UNEQUAL length (the kernel's second branch): the two child lengths are the two parent lengths, every common
/// position holds the two parental genes across the two children, and the surplus tail of the longer parent is preserved.
/// Cut points are enumerated as concrete cases selected by a symbolic index (symbolic `truncate`/`split_off` bounds are a
/// CBMC cost trap); contents are symbolic.
fn multipoint_unequal_case<const N1: usize, const N2: usize>(cuts: &[usize]) {
    let (p1, p2): ([u8; N1], [u8; N2]) = (sym_arr(), sym_arr());
    let [c1, c2] = multi_point_crossover(&p1, &p2, cuts);
    let m = if N1 < N2 { N1 } else { N2 };
    assert!((c1.len() == N1 && c2.len() == N2) || (c1.len() == N2 && c2.len() == N1), "the children do not have the parents' lengths");
    for i in 0..m {
        assert!((c1[i] == p1[i] && c2[i] == p2[i]) || (c1[i] == p2[i] && c2[i] == p1[i]),
                "a position does not hold the two parental genes across the two children (unequal lengths)");
    }
    let (long_child, long_parent): (&Vec<u8>, &[u8]) = if c1.len() > c2.len() { (&c1, if N1 > N2 { &p1 } else { &p2 }) } else { (&c2, if N1 > N2 { &p1 } else { &p2 }) };
    for i in m..long_parent.len() { assert!(long_child[i] == long_parent[i], "the surplus tail of the longer parent is not preserved"); }
}
/// @verif anchor=multi_point_crossover bound="parent lengths 3 and 4; all 9 ordered tuples of 1..2 distinct cut points; all contents"
#[cfg_attr(kani, kani::proof)] #[cfg_attr(kani, kani::unwind(8))]
pub fn c13_multipoint_unequal_3_4() {
    let k: usize = sym();
    assume(k < 9);
    if k == 0 { multipoint_unequal_case::<3, 4>(&[0]); }
    if k == 1 { multipoint_unequal_case::<3, 4>(&[1]); }
    if k == 2 { multipoint_unequal_case::<3, 4>(&[2]); }
    if k == 3 { multipoint_unequal_case::<3, 4>(&[0, 1]); }
    if k == 4 { multipoint_unequal_case::<3, 4>(&[0, 2]); }
    if k == 5 { multipoint_unequal_case::<3, 4>(&[1, 0]); }
    if k == 6 { multipoint_unequal_case::<3, 4>(&[1, 2]); }
    if k == 7 { multipoint_unequal_case::<3, 4>(&[2, 0]); }
    if k == 8 { multipoint_unequal_case::<3, 4>(&[2, 1]); }
}
/// @verif anchor=multi_point_crossover tier=thorough bound="parent lengths 4 and 3; all 9 ordered tuples of 1..2 distinct cut points; all contents"
#[cfg_attr(kani, kani::proof)] #[cfg_attr(kani, kani::unwind(8))]
pub fn c13_multipoint_unequal_4_3() {
    let k: usize = sym();
    assume(k < 9);
    if k == 0 { multipoint_unequal_case::<4, 3>(&[0]); }
    if k == 1 { multipoint_unequal_case::<4, 3>(&[1]); }
    if k == 2 { multipoint_unequal_case::<4, 3>(&[2]); }
    if k == 3 { multipoint_unequal_case::<4, 3>(&[0, 1]); }
    if k == 4 { multipoint_unequal_case::<4, 3>(&[0, 2]); }
    if k == 5 { multipoint_unequal_case::<4, 3>(&[1, 0]); }
    if k == 6 { multipoint_unequal_case::<4, 3>(&[1, 2]); }
    if k == 7 { multipoint_unequal_case::<4, 3>(&[2, 0]); }
    if k == 8 { multipoint_unequal_case::<4, 3>(&[2, 1]); }
}

/// arithmetic crossover at the endpoints of the combination (one coordinate): alpha = 1 returns the parents, alpha = 0 swaps
/// them — both genes of the position are conserved across the two children
/// @verif anchor=arithmetic_crossover bound="length 1 (per coordinate); all finite p, q; alpha in {0, 1}"
#[cfg_attr(kani, kani::proof)] #[cfg_attr(kani, kani::unwind(4))]
pub fn c13_arithmetic_endpoints() {
    let (p, q): (f64, f64) = (sym(), sym());
    assume(p.is_finite() && q.is_finite());
    let one: bool = sym();
    let al = if one { 1.0 } else { 0.0 };
    let [c1, c2] = arithmetic_crossover(&[p], &[q], &[al]);
    assert!(c1.len() == 1 && c2.len() == 1, "child length differs from the parents' length");
    let (w1, w2) = if one { (p, q) } else { (q, p) };
    assert!(c1[0] == w1 && c2[0] == w2, "arithmetic crossover: at alpha in {{0,1}} the children must be the parental genes");
}
/// the stated combination bit-exactly for every alpha (two float multiplier circuits: expensive)
// NOT registered: three symbolic floats through two multiply-add chains: 50-minute limit hit in the thorough run; value grid enumerated natively (c13_native_kernels)
#[allow(dead_code)]
pub fn c13_arithmetic_formula_unregistered() {
    let (p, q, al): (f64, f64, f64) = (sym(), sym(), sym());
    let [c1, c2] = arithmetic_crossover(&[p], &[q], &[al]);
    assert!(c1.len() == 1 && c2.len() == 1, "child length differs from the parents' length");
    let (e1, e2) = (al * p + (1.0 - al) * q, al * q + (1.0 - al) * p);
    assert!(c1[0].to_bits() == e1.to_bits() || (c1[0].is_nan() && e1.is_nan()), "arithmetic crossover: child1 is not the stated combination");
    assert!(c2[0].to_bits() == e2.to_bits() || (c2[0].is_nan() && e2.is_nan()), "arithmetic crossover: child2 is not the stated combination");
}
/// convexity: for alpha in [0,1] the child gene lies between the parental genes (up to rounding of the two products)
// NOT registered: with the absolute subnormal tolerance (without it the harness raised a FALSE ALARM in the thorough run:
// p = q = 5e-324, alpha just below 0.5 gives 0.0) CBMC no longer finishes (UNSAT over three symbolic floats); convexity is checked
// on a value grid incl. subnormals by c13_native_kernels and at component level by c13_native_crossover_genes.
#[allow(dead_code)]
pub fn c13_arithmetic_convex_unregistered() {
    let (p, q, al): (f64, f64, f64) = (sym(), sym(), sym());
    assume(p.is_finite() && q.is_finite() && p.abs() <= 1.0e100 && q.abs() <= 1.0e100 && al >= 0.0 && al <= 1.0);
    let [c1, _c2] = arithmetic_crossover(&[p], &[q], &[al]);
    let lo = if p < q { p } else { q };
    let hi = if p < q { q } else { p };
    // relative rounding of the two products and the sum, plus an absolute term for the subnormal range (there the products round
    // with an ABSOLUTE error of up to one subnormal step: p = q = 5e-324, alpha just below 0.5 gives 0.0)
    let t = 4.0 * f64::EPSILON * (if hi.abs() > lo.abs() { hi.abs() } else { lo.abs() }) + f64::MIN_POSITIVE;
    assert!(c1[0] >= lo - t && c1[0] <= hi + t, "arithmetic crossover: child gene outside the parental interval");
}

fn is_perm_of_0n(p: &[u8]) -> bool {
    let mut ok = true;
    for v in 0..p.len() { ok = ok && count(p, v as u8) == 1; }
    ok
}
fn cycle<const N: usize>() {
    let (p1, p2): ([u8; N], [u8; N]) = (sym_arr(), sym_arr());
    assume(is_perm_of_0n(&p1) && is_perm_of_0n(&p2));
    let [c1, c2] = cycle_crossover(&p1, &p2);
    gene_conserving(&c1, &c2, &p1, &p2);
    assert!(is_perm_of_0n(&c1) && is_perm_of_0n(&c2), "cycle crossover: a child is not a permutation");
}
// NOT registered: undecided in the thorough run (CBMC gives up on the symbolic `position` searches); lengths 1..5 are enumerated
// natively (c13_native_kernels).
#[allow(dead_code)]
pub fn c13_cycle_n3_unregistered() { cycle::<3>() }
// NOT registered: all pairs of length-4 permutations: 50-minute limit hit in the thorough run; lengths 1..5 enumerated natively (c13_native_kernels)
#[allow(dead_code)]
pub fn c13_cycle_n4_unregistered() { cycle::<4>() }

/// insert-one / insert-both
/// @verif anchor=OptionalPair::from_pair
#[cfg_attr(kani, kani::proof)]
pub fn c13_optional_pair() {
    let (a, b, both): (u8, u8, bool) = (sym(), sym(), sym());
    match OptionalPair::from_pair([a, b], both) {
        OptionalPair::Both([x, y]) => assert!(both && x == a && y == b),
        OptionalPair::Single(x) => assert!(!both && x == a),
        OptionalPair::None => assert!(false, "from_pair must not drop the children"),
    }
}
