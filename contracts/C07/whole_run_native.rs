//! BOUNDED STAND-IN (not a proof) for the WHOLE-RUN clauses of C05 / C06 / C07, which no function-level contract decides
//! (they quantify over every step of every shipped heuristic):
//!   C05 "after every component execution of every shipped heuristic, each evaluated individual anywhere in the state carries
//!        exactly the value the objective function assigns to its solution"   (checked on the FINAL state: population stack
//!        and best-so-far)
//!   C06 "over a whole run the reported number of evaluations equals the number of objective-function invocations actually made"
//!   C07 "for every shipped heuristic the best objective value reported at the end of a run equals the minimum value the
//!        objective function returned during that run"
//! Native runs of the real shipped templates (all except the two ACO templates: private parameter fields + TSP instance)
//! on small recording problems, 15 iterations, 3 seeds each.
use std::sync::Mutex;

use super::*;
use crate::{
    conditions::{Condition, LessThanN},
    configuration::Configuration,
    heuristics::*,
    problems::{LimitedVectorProblem, ObjectiveFunction, Problem, Sequential, VectorProblem},
    state::random::Random,
    SingleObjective, State,
};

/// `alt`: a second instance of the same problem type with another dimension and domain (used by C08: a configuration object
/// that has been run on one instance must behave like a fresh one on another)
pub struct Sphere { pub returned: Mutex<Vec<f64>>, pub alt: bool }
impl Problem for Sphere {
    type Encoding = Vec<f64>;
    type Objective = SingleObjective;
    fn name(&self) -> &str { "Sphere" }
}
impl VectorProblem for Sphere {
    type Element = f64;
    fn dimension(&self) -> usize { if self.alt { 5 } else { 3 } }
}
impl LimitedVectorProblem for Sphere {
    fn domain(&self) -> Vec<std::ops::Range<f64>> { if self.alt { vec![-100.0..300.0; 5] } else { vec![-5.0..5.0; 3] } }
}
pub fn sphere(x: &[f64]) -> f64 { x.iter().map(|v| (v - 0.5) * (v - 0.5)).sum::<f64>() + 1.0 }
impl ObjectiveFunction for Sphere {
    fn objective(&self, s: &Vec<f64>) -> SingleObjective {
        let f = sphere(s);
        self.returned.lock().unwrap().push(f);
        SingleObjective::try_from(f).unwrap()
    }
}
pub struct PermCost { pub returned: Mutex<Vec<f64>> }
impl Problem for PermCost {
    type Encoding = Vec<usize>;
    type Objective = SingleObjective;
    fn name(&self) -> &str { "PermCost" }
}
impl VectorProblem for PermCost {
    type Element = usize;
    fn dimension(&self) -> usize { 6 }
}
pub fn perm_cost(p: &[usize]) -> f64 { p.iter().enumerate().map(|(i, v)| ((i + 1) * (*v + 1)) as f64).sum() }
impl ObjectiveFunction for PermCost {
    fn objective(&self, s: &Vec<usize>) -> SingleObjective {
        let f = perm_cost(s);
        self.returned.lock().unwrap().push(f);
        SingleObjective::try_from(f).unwrap()
    }
}
pub struct OneMax { pub returned: Mutex<Vec<f64>> }
impl Problem for OneMax {
    type Encoding = Vec<bool>;
    type Objective = SingleObjective;
    fn name(&self) -> &str { "OneMax" }
}
impl VectorProblem for OneMax {
    type Element = bool;
    fn dimension(&self) -> usize { 8 }
}
pub fn one_max(b: &[bool]) -> f64 { b.iter().filter(|x| !**x).count() as f64 }
impl ObjectiveFunction for OneMax {
    fn objective(&self, s: &Vec<bool>) -> SingleObjective {
        let f = one_max(s);
        self.returned.lock().unwrap().push(f);
        SingleObjective::try_from(f).unwrap()
    }
}

pub struct RunResult { pub name: &'static str, pub seed: u64, pub error: Option<String>, pub invocations: usize, pub reported_evaluations: usize,
                       pub min_returned: Option<f64>, pub reported_best: Option<f64>, pub stale: Option<String>,
                       pub requested_iterations: u32, pub iterations: u32, pub final_stack: Vec<usize> }

fn run_one<P>(name: &'static str, seed: u64, requested: u32, problem: &P, returned: &Mutex<Vec<f64>>, config: Configuration<P>, f: &dyn Fn(&P::Encoding) -> f64) -> RunResult
where P: crate::problems::SingleObjectiveProblem + ObjectiveFunction + 'static, P::Encoding: std::fmt::Debug,
{
    returned.lock().unwrap().clear();
    let r = config.optimize_with(problem, |state: &mut State<P>| {
        state.insert_evaluator(Sequential::<P>::new());
        state.insert(Random::new(seed));
        Ok(())
    });
    let rets = returned.lock().unwrap().clone();
    let requested_iterations = requested;
    let mut out = RunResult { name, seed, error: None, invocations: rets.len(), reported_evaluations: 0, min_returned: rets.iter().cloned().reduce(f64::min), reported_best: None, stale: None, requested_iterations, iterations: 0, final_stack: Vec::new() };
    match r {
        Err(e) => out.error = Some(format!("{e:#}")),
        Ok(state) => {
            out.reported_evaluations = state.evaluations() as usize;
            out.iterations = state.iterations();
            out.final_stack = { let pops = state.populations(); (0..pops.len()).map(|d| pops.peek(d).len()).collect() };
            out.reported_best = state.best_objective_value().map(|o| o.value());
            let pops = state.populations();
            for d in 0..pops.len() {
                for ind in pops.peek(d) {
                    if ind.is_evaluated() && ind.objective().value() != f(ind.solution()) {
                        out.stale = Some(format!("population at depth {d}: individual {:?} reports {} but f(solution) = {}", ind.solution(), ind.objective().value(), f(ind.solution())));
                    }
                }
            }
            if let Some(b) = state.best_individual() {
                if b.is_evaluated() && b.objective().value() != f(b.solution()) {
                    out.stale = Some(format!("best-so-far {:?} reports {} but f(solution) = {}", b.solution(), b.objective().value(), f(b.solution())));
                }
            }
        }
    }
    out
}

pub fn cond<P: Problem>(n: u32) -> Box<dyn Condition<P>> {
    let plain = LessThanN::iterations(n);
    // with a recorder installed (c16_native_stack_per_pass) every termination condition handed to a template is wrapped in a probe
    // that notes the height of the population stack each time the loop tests it, i.e. before every pass and after the last one
    PROBE.with(|p| match &*p.borrow() {
        None => plain.clone(),
        Some(rec) => {
            let id = NEXT_PROBE.with(|k| { let v = k.get(); k.set(v + 1); v });
            Box::new(PassProbe { inner: plain.clone(), id, records: rec.clone() }) as Box<dyn Condition<P>>
        }
    })
}
thread_local! {
    static PROBE: std::cell::RefCell<Option<std::sync::Arc<Mutex<Vec<(usize, usize)>>>>> = std::cell::RefCell::new(None);
    static NEXT_PROBE: std::cell::Cell<usize> = std::cell::Cell::new(0);
}
#[derive(serde::Serialize, derivative::Derivative)]
#[serde(bound = "")]
#[derivative(Clone(bound = ""))]
pub struct PassProbe<P: Problem> { inner: Box<dyn Condition<P>>, id: usize, #[serde(skip)] records: std::sync::Arc<Mutex<Vec<(usize, usize)>>> }
impl<P: Problem> Condition<P> for PassProbe<P> {
    fn init(&self, problem: &P, state: &mut State<P>) -> crate::ExecResult<()> { self.inner.init(problem, state) }
    fn require(&self, problem: &P, state_req: &crate::state::StateReq<P>) -> crate::ExecResult<()> { self.inner.require(problem, state_req) }
    fn evaluate(&self, problem: &P, state: &mut State<P>) -> crate::ExecResult<bool> {
        let h = state.populations().len();
        self.records.lock().unwrap().push((self.id, h));
        self.inner.evaluate(problem, state)
    }
}


pub fn real_templates(n: u32) -> Vec<(&'static str, Configuration<Sphere>)> {
    vec![
            ("real_ga", ga::real_ga(ga::RealProblemParameters { population_size: 8, tournament_size: 3, pm: 0.5, deviation: 0.2, pc: 0.8 }, cond(n)).unwrap()),
            // an odd population with a tournament over the whole population (an unpaired last parent, selection at its size limit)
            ("real_ga[odd]", ga::real_ga(ga::RealProblemParameters { population_size: 7, tournament_size: 7, pm: 0.5, deviation: 0.2, pc: 0.8 }, cond(n)).unwrap()),
            ("real_pso", pso::real_pso(pso::RealProblemParameters { num_particles: 6, start_weight: 0.9, end_weight: 0.4, c_one: 1.0, c_two: 1.5, v_max: 1.0 }, cond(n)).unwrap()),
            ("real_sa", sa::real_sa(sa::RealProblemParameters { t_0: 5.0, alpha: 0.9, deviation: 0.3 }, cond(n)).unwrap()),
            ("real_ls", ls::real_ls(ls::RealProblemParameters { n_neighbors: 4, deviation: 0.3 }, cond(n)).unwrap()),
            ("real_ils", ils::real_ils(ils::RealProblemParameters { ls_params: ls::RealProblemParameters { n_neighbors: 3, deviation: 0.3 }, ls_condition: cond(3) }, cond(5)).unwrap()),
            ("real_iwo", iwo::real_iwo(iwo::RealProblemParameters { initial_population_size: 4, max_population_size: 8, min_number_of_seeds: 0, max_number_of_seeds: 3, initial_deviation: 1.0, final_deviation: 0.1, modulation_index: 2 }, cond(n)).unwrap()),
            ("real_mu_plus_lambda_es", es::real_mu_plus_lambda_es::<Sphere, ()>(es::RealProblemParameters { population_size: 4, lambda: 8, deviation: 0.3 }, cond(n)).unwrap()),
            ("real_de", de::real_de(de::RealProblemParameters { population_size: 8, y: 1, f: 0.5, pc: 0.8 }, cond(n)).unwrap()),
            ("real_fa", fa::real_fa(fa::RealProblemParameters { pop_size: 5, alpha: 0.25, beta: 1.0, gamma: 1.0, delta: 0.97 }, cond(n)).unwrap()),
            // no randomisation and no attraction: every firefly "move" is exactly zero (still one evaluation per comparison)
            ("real_fa[still]", fa::real_fa(fa::RealProblemParameters { pop_size: 4, alpha: 0.0, beta: 0.0, gamma: 1.0, delta: 0.97 }, cond(n)).unwrap()),
            ("real_bh", bh::real_bh(bh::RealProblemParameters { num_particles: 6 }, cond(n)).unwrap()),
            ("real_rw", rw::real_rw(rw::RealProblemParameters { deviation: 0.3 }, cond(n)).unwrap()),
            ("real_rs", rs::real_rs(cond(n)).unwrap()),
            // little kinetic energy: many reactions are rejected for lack of energy (their evaluated products are discarded)
            ("real_cro[low energy]", cro::real_cro(cro::RealProblemParameters { initial_population_size: 6, mole_coll: 0.5, kinetic_energy_lr: 0.5, alpha: 3, beta: 0.5, initial_kinetic_energy: 1.0, buffer: 0.0, on_wall_deviation: 0.5, decomposition_deviation: 1.0 }, cond(40)).unwrap()),
            ("real_cro", cro::real_cro(cro::RealProblemParameters { initial_population_size: 6, mole_coll: 0.5, kinetic_energy_lr: 0.5, alpha: 5, beta: 0.2, initial_kinetic_energy: 50.0, buffer: 0.0, on_wall_deviation: 0.2, decomposition_deviation: 0.3 }, cond(n)).unwrap()),
    ]
}
pub fn perm_templates(n: u32) -> Vec<(&'static str, Configuration<PermCost>)> {
    vec![
            ("permutation_sa", sa::permutation_sa(sa::PermutationProblemParameters { t_0: 5.0, alpha: 0.9, num_swap: 2 }, cond(n)).unwrap()),
            ("permutation_ls", ls::permutation_ls(ls::PermutationProblemParameters { num_neighbors: 4, num_swap: 2 }, cond(n)).unwrap()),
            ("permutation_ils", ils::permutation_ils(ils::PermutationProblemParameters { ls_params: ls::PermutationProblemParameters { num_neighbors: 3, num_swap: 2 }, ls_condition: cond(3) }, cond(5)).unwrap()),
            ("permutation_random_walk", rw::permutation_random_walk(rw::PermutationProblemParameters { num_swap: 2 }, cond(n)).unwrap()),
            ("permutation_rs", rs::permutation_rs(cond(n)).unwrap()),
    ]
}
pub fn binary_template(n: u32) -> Configuration<OneMax> {
    ga::binary_ga(ga::BinaryProblemParameters { population_size: 8, tournament_size: 3, rm: 0.2, pc: 0.8, pm: 0.5 }, cond(n)).unwrap()
}

/// runs every shipped template and hands each result to `check`: 3 seeds x 15 iterations, then 30 further seeds x {1, 2, 3, 6}
/// iterations (what happens in the LAST pass of a run is only visible if runs end after different numbers of passes)
pub fn for_all_runs(check: &mut dyn FnMut(&RunResult)) -> u64 {
    let mut runs = 0u64;
    let mut plan: Vec<(u64, u32)> = (0..3u64).map(|s| (s, 15)).collect();
    for seed in 100..130u64 { for n in [1u32, 2, 3, 6] { plan.push((seed, n)); } }
    for (seed, n) in plan {
        let sp = Sphere { returned: Mutex::new(Vec::new()), alt: false };
        let real = real_templates(n);
        for (name, c) in real { let r = run_one(name, seed, if name.contains("ils") { 5 } else if name.contains("low energy") { 40 } else { n }, &sp, &sp.returned, c, &|s: &Vec<f64>| sphere(s)); check(&r); runs += 1; }
        let pp = PermCost { returned: Mutex::new(Vec::new()) };
        let perm = perm_templates(n);
        for (name, c) in perm { let r = run_one(name, seed, if name.contains("ils") { 5 } else { n }, &pp, &pp.returned, c, &|s: &Vec<usize>| perm_cost(s)); check(&r); runs += 1; }
        let bp = OneMax { returned: Mutex::new(Vec::new()) };
        let c = binary_template(n);
        let r = run_one("binary_ga", seed, n, &bp, &bp.returned, c, &|s: &Vec<bool>| one_max(s)); check(&r); runs += 1;
    }
    runs
}

fn report(failures: &[(String, String, u64)], what: &str) {
    for (_, first, count) in failures { eprintln!("COUNTEREXAMPLE {first}   [{count} failing runs of this template]"); }
    if !failures.is_empty() { panic!("{}", what.to_string()) }
}
fn note(failures: &mut Vec<(String, String, u64)>, clause: &str, r: &RunResult, why: String) {
    if let Some(f) = failures.iter_mut().find(|f| f.0 == r.name) { f.2 += 1 } else { failures.push((r.name.to_string(), format!("template={} clause={clause} seed={}: {why}", r.name, r.seed), 1)); }
}

// @native-harness
pub fn c06_native_whole_runs() {
    let mut failures = Vec::new();
    let runs = for_all_runs(&mut |r| {
        if let Some(e) = &r.error { eprintln!("NOTE template={} seed={} did not complete (C16, not claimed): {e}", r.name, r.seed); return }
        if r.invocations != r.reported_evaluations { note(&mut failures, "evaluations-vs-invocations", r, format!("{} evaluations reported but the objective function was invoked {} times", r.reported_evaluations, r.invocations)) }
    });
    report(&failures, "the reported number of evaluations differs from the number of objective-function invocations");
    println!("c06_native_whole_runs: {} runs checked", runs);
}
// @native-harness
pub fn c07_native_whole_runs() {
    let mut failures = Vec::new();
    // chemical-reaction runs in which many reactions are rejected for lack of energy: the evaluated products of a rejected reaction
    // are discarded, but their values were returned by the objective function and count for the reported best
    let mut extra = 0u64;
    for seed in 0..12u64 {
        for (ke0, buffer) in [(10.0, 0.0), (2.0, 5.0)] {
            let sp = Sphere { returned: Mutex::new(Vec::new()), alt: false };
            let c = cro::real_cro(cro::RealProblemParameters { initial_population_size: 10, mole_coll: 0.3, kinetic_energy_lr: 0.2, alpha: 5, beta: 0.1, initial_kinetic_energy: ke0,
                buffer, on_wall_deviation: 0.3, decomposition_deviation: 0.5 }, cond(50)).unwrap();
            let r = run_one("real_cro[rejections]", seed, 50, &sp, &sp.returned, c, &|s: &Vec<f64>| sphere(s));
            if r.error.is_none() && r.reported_best != r.min_returned {
                note(&mut failures, "reported-best-vs-minimum-returned", &r, format!("initial kinetic energy {ke0}, buffer {buffer}: best reported at the end is {:?} but the minimum value the objective function returned is {:?}", r.reported_best, r.min_returned));
            }
            extra += 1;
        }
    }
    let runs = extra + for_all_runs(&mut |r| {
        if r.error.is_some() { return }
        if r.reported_best != r.min_returned { note(&mut failures, "reported-best-vs-minimum-returned", r, format!("best reported at the end is {:?} but the minimum value the objective function returned is {:?}", r.reported_best, r.min_returned)) }
    });
    report(&failures, "the best objective value reported at the end differs from the minimum the objective function returned");
    println!("c07_native_whole_runs: {} runs checked", runs);
}
/// leading identifiers of the items of every list (`[...]` = a `Block` of components) in a RON rendering of a component tree
fn ron_blocks(text: &str) -> Vec<Vec<String>> {
    struct Frame { list: bool, items: Vec<String>, cur: String, naming: bool }
    let mut out = Vec::new();
    let mut stack: Vec<Frame> = vec![Frame { list: false, items: Vec::new(), cur: String::new(), naming: true }];
    let mut chars = text.chars().peekable();
    while let Some(c) = chars.next() {
        match c {
            '"' => { while let Some(d) = chars.next() { if d == '\\' { chars.next(); } else if d == '"' { break } } let t = stack.last_mut().unwrap(); t.naming = false; }
            '[' | '(' | '{' => {
                let t = stack.last_mut().unwrap();
                if t.cur.is_empty() { t.cur.push(c); }
                t.naming = false;
                stack.push(Frame { list: c == '[', items: Vec::new(), cur: String::new(), naming: true });
            }
            ']' | ')' | '}' => {
                let mut f = stack.pop().unwrap();
                if !f.cur.is_empty() { f.items.push(std::mem::take(&mut f.cur)); }
                if f.list { out.push(f.items); }
            }
            ',' => { let t = stack.last_mut().unwrap(); if !t.cur.is_empty() { let x = std::mem::take(&mut t.cur); t.items.push(x); } t.naming = true; }
            c if c.is_alphanumeric() || c == '_' => { let t = stack.last_mut().unwrap(); if t.naming { t.cur.push(c); } }
            c if c.is_whitespace() => { let t = stack.last_mut().unwrap(); if !t.cur.is_empty() { t.naming = false; } }
            _ => { let t = stack.last_mut().unwrap(); t.naming = false; }
        }
    }
    out
}

/// The modular argument behind "the best objective value reported at the end of a run equals the minimum value the objective
/// function returned": (a) an evaluation step evaluates exactly the current population (C06 contracts), (b) right after
/// `BestIndividualUpdate` the recorded best is at least as good as every individual of that population and only ever improves
/// (C07 Verus contracts), so it suffices that (c) in every shipped template EVERY evaluation step is directly followed by a
/// best-individual update.  (c) is a property of the template's component tree; it is checked here on the tree each template
/// constructor really builds (rendered through the crate's own serialisation), for every shipped template.
// @native-harness
pub fn c07_native_template_structure() {
    let mut trees: Vec<(&'static str, String)> = Vec::new();
    let render = |c: &dyn crate::Component<Sphere>| ron::ser::to_string_pretty(c, ron::ser::PrettyConfig::default().struct_names(true)).expect("a template could not be serialised");
    for (name, c) in real_templates(5) { trees.push((name, render(c.heuristic()))); }
    for (name, c) in perm_templates(5) { trees.push((name, ron::ser::to_string_pretty(c.heuristic(), ron::ser::PrettyConfig::default().struct_names(true)).expect("a template could not be serialised"))); }
    trees.push(("binary_ga", ron::ser::to_string_pretty(binary_template(5).heuristic(), ron::ser::PrettyConfig::default().struct_names(true)).expect("a template could not be serialised")));
    let mut bad = 0;
    let mut evaluations = 0;
    for (name, text) in &trees {
        let blocks = ron_blocks(text);
        let mut seen = 0;
        for items in &blocks {
            for (i, it) in items.iter().enumerate() {
                if it == "PopulationEvaluator" {
                    seen += 1;
                    // (a `Logger` only reads the state: it may stand between the two)
                    let next = items.iter().skip(i + 1).find(|s| s.as_str() != "Logger");
                    if next.map(|s| s.as_str()) != Some("BestIndividualUpdate") {
                        eprintln!("COUNTEREXAMPLE template={name} clause=evaluation-followed-by-best-update: evaluation step number {seen} of the component tree is followed by {:?}, not by a best-individual update; block = {items:?}", next);
                        bad += 1;
                    }
                }
            }
        }
        if seen == 0 { eprintln!("COUNTEREXAMPLE template={name} clause=evaluation-found: no evaluation step found in the rendered component tree:\n{text}"); bad += 1; }
        evaluations += seen;
    }
    if bad > 0 { panic!("a shipped template evaluates without updating the best individual right afterwards") }
    println!("c07_native_template_structure: {} templates, {} evaluation steps, each directly followed by a best-individual update", trees.len(), evaluations);
}
// @native-harness
pub fn c05_native_whole_runs() {
    let mut failures = Vec::new();
    let runs = for_all_runs(&mut |r| {
        if r.error.is_some() { return }
        if let Some(s) = &r.stale { note(&mut failures, "stale-objective-in-final-state", r, format!("stale objective value in the final state: {s}")) }
    });
    report(&failures, "an evaluated individual does not carry the value the objective function assigns to its solution");
    println!("c05_native_whole_runs: {} runs checked", runs);
}

/// the population size each template's parameters prescribe for the single population left at the end (None: not fixed)
fn prescribed_size(name: &str) -> Option<(usize, usize)> {
    Some(match name {
        "real_ga" | "binary_ga" | "real_de" => (8, 8),
        "real_ga[odd]" => (7, 7),
        "real_pso" | "real_bh" => (6, 6),
        "real_fa" => (5, 5),
        "real_fa[still]" => (4, 4),
        "real_mu_plus_lambda_es" => (4, 4),
        "real_iwo" => (1, 8),
        "real_sa" | "permutation_sa" | "real_ls" | "permutation_ls" | "real_ils" | "permutation_ils" | "real_rw" | "permutation_random_walk" | "real_rs" | "permutation_rs" => (1, 1),
        _ => return None,   // real_cro: the number of molecules changes with decompositions and syntheses
    })
}

/// a plateau: every solution has the same objective value (equal candidates at every step)
pub struct Plateau;
impl Problem for Plateau {
    type Encoding = Vec<f64>;
    type Objective = SingleObjective;
    fn name(&self) -> &str { "Plateau" }
}
impl VectorProblem for Plateau {
    type Element = f64;
    fn dimension(&self) -> usize { 2 }
}
impl LimitedVectorProblem for Plateau {
    fn domain(&self) -> Vec<std::ops::Range<f64>> { vec![-1.0..1.0; 2] }
}
impl ObjectiveFunction for Plateau {
    fn objective(&self, _s: &Vec<f64>) -> SingleObjective { SingleObjective::try_from(3.0).unwrap() }
}

// @native-harness
pub fn c16_native_whole_runs() {
    let mut failures = Vec::new();
    // valid but unusual parameters: simulated annealing that cools to temperature 0 at once (alpha = 0 is admitted by
    // GeometricCooling) on a plateau, where every candidate is exactly as good as the current solution
    for seed in 0..3u64 {
        let c = sa::real_sa::<Plateau>(sa::RealProblemParameters { t_0: 1.0, alpha: 0.0, deviation: 0.1 }, cond(10)).unwrap();
        let prev = std::panic::take_hook();
        std::panic::set_hook(Box::new(|_| {}));
        let r = std::panic::catch_unwind(std::panic::AssertUnwindSafe(|| c.optimize_with(&Plateau, |state: &mut State<Plateau>| { state.insert_evaluator(Sequential::<Plateau>::new()); state.insert(Random::new(seed)); Ok(()) })));
        std::panic::set_hook(prev);
        let why = match r {
            Err(p) => Some(format!("the run panicked: {}", p.downcast_ref::<String>().cloned().or_else(|| p.downcast_ref::<&str>().map(|s| s.to_string())).unwrap_or_default())),
            Ok(Err(e)) => Some(format!("the run failed: {e:#}")),
            Ok(Ok(state)) => if state.iterations() != 10 || state.populations().len() != 1 || state.populations().current().len() != 1 { Some(format!("{} iterations, {} populations at the end", state.iterations(), state.populations().len())) } else { None },
        };
        if let Some(why) = why {
            let r = RunResult { name: "real_sa[alpha=0, plateau]", seed, error: None, invocations: 0, reported_evaluations: 0, min_returned: None, reported_best: None, stale: None, requested_iterations: 10, iterations: 0, final_stack: Vec::new() };
            note(&mut failures, "runs-to-completion", &r, why);
        }
    }
    let runs = for_all_runs(&mut |r| {
        if let Some(e) = &r.error { note(&mut failures, "runs-to-completion", r, format!("the run failed: {e}")); return }
        if r.iterations != r.requested_iterations { note(&mut failures, "requested-iterations", r, format!("{} iterations performed, {} requested", r.iterations, r.requested_iterations)) }
        else if r.final_stack.len() != 1 { note(&mut failures, "stack-balanced", r, format!("{} populations on the stack at the end of the run (sizes {:?}), expected one", r.final_stack.len(), r.final_stack)) }
        else if let Some((lo, hi)) = prescribed_size(r.name) {
            if r.final_stack[0] < lo || r.final_stack[0] > hi { note(&mut failures, "population-size", r, format!("final population size {} outside the prescribed {lo}..={hi}", r.final_stack[0])) }
        }
    });
    report(&failures, "a shipped template does not run to completion with a balanced stack");
    println!("c16_native_whole_runs: {} runs checked", runs);
}

/// "given valid parameters ... for every seed and problem instance": every parameter set below is ACCEPTED by the template's
/// constructor; they sit at the edges of what the constructors admit (one individual, selection size = population size,
/// probabilities exactly 0 and 1, lambda < mu, population = 2y for DE, ...)
fn corner_templates(n: u32) -> Vec<(String, Configuration<Sphere>, Option<(usize, usize)>)> {
    let mut v: Vec<(String, Configuration<Sphere>, Option<(usize, usize)>)> = Vec::new();
    for (pop, tour, pm, pc) in [(2u32, 1u32, 1.0, 1.0), (2, 2, 0.0, 0.0), (3, 3, 0.5, 0.5), (5, 1, 1.0, 0.0), (4, 4, 0.0, 1.0)] {
        v.push((format!("real_ga[pop={pop} tournament={tour} pm={pm} pc={pc}]"), ga::real_ga(ga::RealProblemParameters { population_size: pop, tournament_size: tour, pm, deviation: 0.2, pc }, cond(n)).unwrap(), Some((pop as usize, pop as usize))));
    }
    for (k, sw, ew, c1, c2) in [(1u32, 0.9, 0.4, 1.0, 1.5), (2, 0.0, 0.0, 0.0, 0.0), (3, 1.2, 1.2, 2.0, 0.0)] {
        v.push((format!("real_pso[particles={k} w={sw}->{ew} c1={c1} c2={c2}]"), pso::real_pso(pso::RealProblemParameters { num_particles: k, start_weight: sw, end_weight: ew, c_one: c1, c_two: c2, v_max: 1.0 }, cond(n)).unwrap(), Some((k as usize, k as usize))));
    }
    for (t0, alpha) in [(1.0e-300, 0.5), (1.0e300, 0.999), (1.0, 0.0)] {
        v.push((format!("real_sa[t0={t0} alpha={alpha}]"), sa::real_sa(sa::RealProblemParameters { t_0: t0, alpha, deviation: 0.3 }, cond(n)).unwrap(), Some((1, 1))));
    }
    v.push(("real_ls[1 neighbour]".into(), ls::real_ls(ls::RealProblemParameters { n_neighbors: 1, deviation: 0.3 }, cond(n)).unwrap(), Some((1, 1))));
    for (init, max, lo, hi) in [(1u32, 1u32, 1u32, 1u32), (3, 3, 0, 2), (2, 6, 2, 2), (1, 4, 0, 5)] {
        v.push((format!("real_iwo[initial={init} max={max} seeds={lo}..{hi}]"), iwo::real_iwo(iwo::RealProblemParameters { initial_population_size: init, max_population_size: max, min_number_of_seeds: lo, max_number_of_seeds: hi, initial_deviation: 1.0, final_deviation: 0.1, modulation_index: 2 }, cond(n)).unwrap(), Some((1, max as usize))));
    }
    for (mu, lambda) in [(1u32, 1u32), (3, 1), (1, 5), (4, 4)] {
        v.push((format!("real_mu_plus_lambda_es[mu={mu} lambda={lambda}]"), es::real_mu_plus_lambda_es::<Sphere, ()>(es::RealProblemParameters { population_size: mu, lambda, deviation: 0.3 }, cond(n)).unwrap(), Some((mu as usize, mu as usize))));
    }
    for (pop, y, pc) in [(2u32, 1u32, 0.8), (3, 1, 0.0), (4, 2, 1.0), (5, 2, 0.5), (6, 2, 0.8), (9, 2, 0.8)] {
        v.push((format!("real_de[pop={pop} y={y} pc={pc}]"), de::real_de(de::RealProblemParameters { population_size: pop, y, f: 0.5, pc }, cond(n)).unwrap(), Some((pop as usize, pop as usize))));
    }
    for pop in [1u32, 2] {
        v.push((format!("real_fa[pop={pop}]"), fa::real_fa(fa::RealProblemParameters { pop_size: pop, alpha: 0.25, beta: 1.0, gamma: 1.0, delta: 0.97 }, cond(n)).unwrap(), Some((pop as usize, pop as usize))));
        v.push((format!("real_bh[particles={pop}]"), bh::real_bh(bh::RealProblemParameters { num_particles: pop }, cond(n)).unwrap(), Some((pop as usize, pop as usize))));
        v.push((format!("real_cro[molecules={pop}]"), cro::real_cro(cro::RealProblemParameters { initial_population_size: pop, mole_coll: 0.5, kinetic_energy_lr: 0.5, alpha: 2, beta: 0.2, initial_kinetic_energy: 20.0, buffer: 0.0, on_wall_deviation: 0.2, decomposition_deviation: 0.3 }, cond(n)).unwrap(), None));
    }
    v
}

// @native-harness
pub fn c16_native_parameter_corners() {
    let mut failed = 0u64;
    let mut runs = 0u64;
    let n = 6u32;
    for seed in 0..4u64 {
        for (name, c, size) in corner_templates(n) {
            let sp = Sphere { returned: Mutex::new(Vec::new()), alt: seed % 2 == 1 };
            let prev = std::panic::take_hook();
            std::panic::set_hook(Box::new(|_| {}));
            let r = std::panic::catch_unwind(std::panic::AssertUnwindSafe(|| c.optimize_with(&sp, |state: &mut State<Sphere>| { state.insert_evaluator(Sequential::<Sphere>::new()); state.insert(Random::new(seed)); Ok(()) })));
            std::panic::set_hook(prev);
            let why = match r {
                Err(p) => Some(format!("clause=runs-to-completion the run panicked: {}", p.downcast_ref::<String>().cloned().or_else(|| p.downcast_ref::<&str>().map(|s| s.to_string())).unwrap_or_default())),
                Ok(Err(e)) => Some(format!("clause=runs-to-completion the run failed: {e:#}")),
                Ok(Ok(state)) => {
                    let pops = state.populations();
                    if state.iterations() != n { Some(format!("clause=requested-iterations {} iterations performed, {n} requested", state.iterations())) }
                    else if pops.len() != 1 { Some(format!("clause=stack-balanced {} populations on the stack at the end of the run", pops.len())) }
                    else if size.map_or(false, |(lo, hi)| pops.current().len() < lo || pops.current().len() > hi) { Some(format!("clause=population-size final population size {} outside the prescribed {:?}", pops.current().len(), size.unwrap())) }
                    else { None }
                }
            };
            if let Some(why) = why { eprintln!("COUNTEREXAMPLE template={name} seed={seed} {why}"); failed += 1; }
            runs += 1;
        }
    }
    // "given valid parameters": the parameters `real_iwo` DOCUMENTS as valid (final_deviation <= initial_deviation, the deviation
    // shrinks over the run) must be accepted by its constructor and run
    {
        let params = iwo::RealProblemParameters { initial_population_size: 3, max_population_size: 6, min_number_of_seeds: 0, max_number_of_seeds: 3, initial_deviation: 1.0, final_deviation: 0.1, modulation_index: 2 };
        let name = "real_iwo[initial_deviation=1 final_deviation=0.1]";
        match iwo::real_iwo::<Sphere>(params, cond(n)) {
            Err(e) => { eprintln!("COUNTEREXAMPLE template={name} clause=documented-parameters-accepted the constructor rejects the documented parameter range: {e}"); failed += 1; }
            Ok(c) => {
                let sp = Sphere { returned: Mutex::new(Vec::new()), alt: false };
                let r = run_one("real_iwo[documented deviations]", 0, n, &sp, &sp.returned, c, &|s: &Vec<f64>| sphere(s));
                if r.error.is_some() || r.iterations != n || r.final_stack.len() != 1 { eprintln!("COUNTEREXAMPLE template={name} clause=runs-to-completion {:?}, {} iterations, stack {:?}", r.error, r.iterations, r.final_stack); failed += 1; }
            }
        }
        runs += 1;
    }
    if failed > 0 { panic!("a shipped template does not run to completion with a balanced stack at the edge of its parameter range") }
    println!("c16_native_parameter_corners: {} runs checked", runs);
}

/// "Each loop pass ends with the population stack at the height it had before the pass": the termination condition handed to
/// each template is wrapped in a probe (`PassProbe`) that records the stack height every time the loop tests it; all heights
/// one probe sees during a run must be equal.
// @native-harness
pub fn c16_native_stack_per_pass() {
    let rec = std::sync::Arc::new(Mutex::new(Vec::new()));
    PROBE.with(|p| *p.borrow_mut() = Some(rec.clone()));
    let mut failed: Vec<String> = Vec::new();
    let mut runs = 0u64;
    let mut observed = 0usize;
    let mut analyse = |name: &str, seed: u64, ok: bool, failed: &mut Vec<String>| {
        let records: Vec<(usize, usize)> = std::mem::take(&mut *rec.lock().unwrap());
        if !ok { return }   // (completion is c16_native_whole_runs' clause)
        if records.is_empty() { eprintln!("COUNTEREXAMPLE template={name} clause=probe-reached seed={seed}: the termination condition was never evaluated"); failed.push(name.to_string()); return }
        let mut ids: Vec<usize> = records.iter().map(|r| r.0).collect();
        ids.sort(); ids.dedup();
        for id in ids {
            let hs: Vec<usize> = records.iter().filter(|r| r.0 == id).map(|r| r.1).collect();
            if hs.iter().any(|h| *h != hs[0]) && !failed.iter().any(|f| f == name) {
                eprintln!("COUNTEREXAMPLE template={name} clause=stack-balanced-per-pass seed={seed}: stack heights seen by one loop at its successive tests: {hs:?}");
                failed.push(name.to_string());
            }
        }
        observed += records.len();
    };
    for seed in 0..3u64 {
        let n = 6;
        let sp = Sphere { returned: Mutex::new(Vec::new()), alt: false };
        for (name, c) in real_templates(n) { let r = run_one(name, seed, n, &sp, &sp.returned, c, &|s: &Vec<f64>| sphere(s)); analyse(name, seed, r.error.is_none(), &mut failed); runs += 1; }
        for (name, c, _) in corner_templates(n) { let r = run_one("corner", seed, n, &sp, &sp.returned, c, &|s: &Vec<f64>| sphere(s)); analyse(&name, seed, r.error.is_none(), &mut failed); runs += 1; }
        let pp = PermCost { returned: Mutex::new(Vec::new()) };
        for (name, c) in perm_templates(n) { let r = run_one(name, seed, n, &pp, &pp.returned, c, &|s: &Vec<usize>| perm_cost(s)); analyse(name, seed, r.error.is_none(), &mut failed); runs += 1; }
        let bp = OneMax { returned: Mutex::new(Vec::new()) };
        let r = run_one("binary_ga", seed, n, &bp, &bp.returned, binary_template(n), &|s: &Vec<bool>| one_max(s)); analyse("binary_ga", seed, r.error.is_none(), &mut failed); runs += 1;
    }
    PROBE.with(|p| *p.borrow_mut() = None);
    if !failed.is_empty() { panic!("a loop pass of a shipped template does not end with the population stack at the height it had before the pass") }
    println!("c16_native_stack_per_pass: {} runs, {} loop tests observed", runs, observed);
}
