//! C07 — kernels: population minimum and BestIndividual::update as bit-precise Hoare triples.
use super::*;
use crate::{population::BestIndividual as _, state::common::BestIndividual, Individual};

type I = Individual<ScalarProblem>;

/// contract of `population::BestIndividual::best_individual` (the one mirrored in the Verus glue unit):
/// None iff empty, else a member whose objective is <= every member's.
fn best_of(n: usize) {
    let pop = sym_population(n);
    let b = pop.best_individual();
    assert!(b.is_none() == (n == 0), "best_individual: None iff the population is empty");
    if let Some(b) = b {
        let mut member = false;
        for x in pop.iter() {
            assert!(b.objective() <= x.objective(), "best_individual is not at least as good as every member");
            member = member || std::ptr::eq(b, x);
        }
        assert!(member, "best_individual is not a member of the population");
    }
}
/// @verif anchor=population::best_individual bound="population size 0"
#[cfg_attr(kani, kani::proof)] #[cfg_attr(kani, kani::unwind(6))]
pub fn c07_best_of_0() { best_of(0) }
/// @verif anchor=population::best_individual bound="population size 1"
#[cfg_attr(kani, kani::proof)] #[cfg_attr(kani, kani::unwind(6))]
pub fn c07_best_of_1() { best_of(1) }
/// @verif anchor=population::best_individual bound="population size 3; all objective values incl. ties and +inf"
#[cfg_attr(kani, kani::proof)] #[cfg_attr(kani, kani::unwind(6))]
pub fn c07_best_of_3() { best_of(3) }

/// two consecutive updates over all pairs of objective values (complete: loop-free over all f64)
/// @verif anchor=BestIndividual::update
#[cfg_attr(kani, kani::proof)]
pub fn c07_update_two_steps() {
    let (a, b) = (sym_individual(), sym_individual());
    let mut best = BestIndividual::<ScalarProblem>::new();
    assert!(best.is_none());
    let r1 = best.update(&a);
    assert!(r1, "the first candidate must be recorded");
    assert!(best.as_ref().unwrap().solution() == a.solution() && best.as_ref().unwrap().objective() == a.objective());
    let r2 = best.update(&b);
    assert!(r2 == (b.objective() < a.objective()), "replaced iff the candidate is strictly better");
    let now = best.as_ref().unwrap();
    if r2 {
        assert!(now.solution() == b.solution() && now.objective() == b.objective(), "the stored best is not the candidate");
    } else {
        assert!(now.solution() == a.solution() && now.objective() == a.objective(), "the stored best changed without improvement");
    }
    assert!(now.objective() <= a.objective() && now.objective() <= b.objective(), "best got worse");
    vcover!(r2);
    vcover!(!r2 && a.objective() == b.objective());
}
