//! C07 — elitist archive kernel (`ElitistArchive::update` is private: this file is injected as a child module
//! of components::archive in the scratch copy).  "An elitist archive of capacity k holds, after each update, the
//! k best individuals it has been shown so far."
use super::*;
use crate::verif_harness::*;

type I = crate::Individual<ScalarProblem>;

fn check_k_best(arch: &[I], shown: &[I], k: usize) {
    let want = if k < shown.len() { k } else { shown.len() };
    assert!(arch.len() == want, "archive size is not min(k, number shown)");
    for i in 1..arch.len() {
        assert!(arch[i - 1].objective() <= arch[i].objective(), "archive is not sorted by objective");
    }
    for x in arch {
        assert!(occurrences(arch, x) <= occurrences(shown, x), "archive holds an individual it was not shown (or too often)");
    }
    if let Some(worst) = arch.last() {
        for x in shown {
            if occurrences(arch, x) < occurrences(shown, x) {
                assert!(worst.objective() <= x.objective(), "a discarded individual is better than a kept one");
            }
        }
    }
}

fn two_updates(n1: usize, n2: usize) {
    let (p1, p2) = (sym_population(n1), sym_population(n2));
    let k: usize = sym();
    assume(k <= 5);
    let mut a = ElitistArchive::<ScalarProblem>::new();
    a.update(&p1, k);
    check_k_best(a.elitists(), &p1, k);
    a.update(&p2, k);
    let mut shown = p1.clone();
    shown.extend(p2.iter().cloned());
    check_k_best(a.elitists(), &shown, k);
    crate::vcover!(k > n1);
    crate::vcover!(k == 0);
}
/// @verif anchor=ElitistArchive::update bound="updates with 1 then 1 individuals; k <= 5; all objective values"
#[cfg_attr(kani, kani::proof)] #[cfg_attr(kani, kani::unwind(8))]
pub fn c07_archive_1_1() { two_updates(1, 1) }
/// @verif anchor=ElitistArchive::update tier=thorough bound="updates with 1 then 2 individuals; k <= 5; all objective values"
#[cfg_attr(kani, kani::proof)] #[cfg_attr(kani, kani::unwind(8))]
pub fn c07_archive_1_2() { two_updates(1, 2) }
/// @verif anchor=ElitistArchive::update tier=thorough bound="updates with 2 then 2 individuals; k <= 5"
#[cfg_attr(kani, kani::proof)] #[cfg_attr(kani, kani::unwind(8))]
pub fn c07_archive_2_2() { two_updates(2, 2) }
