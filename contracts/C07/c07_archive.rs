//! C07 — elitist archive kernel (`ElitistArchive::update` is private: this file is injected as a child module
//! of components::archive in the scratch copy).  "An elitist archive of capacity k holds, after each update, the
//! k best individuals it has been shown so far."
use super::*;
use crate::verif_harness::*;

type I = crate::Individual<ScalarProblem>;

fn check_k_best(arch: &[I], shown: &[I], k: usize) {
    let want = if k < shown.len() { k } else { shown.len() };
    assert!(arch.len() == want, "archive size is not min(k, number shown)");
    for i in 1..arch.len() {
        assert!(arch[i - 1].objective() <= arch[i].objective(), "archive is not sorted by objective");
    }
    for x in arch {
        assert!(occurrences(arch, x) <= occurrences(shown, x), "archive holds an individual it was not shown (or too often)");
    }
    if let Some(worst) = arch.last() {
        for x in shown {
            if occurrences(arch, x) < occurrences(shown, x) {
                assert!(worst.objective() <= x.objective(), "a discarded individual is better than a kept one");
            }
        }
    }
}

fn two_updates(n1: usize, n2: usize) {
    let (p1, p2) = (sym_population(n1), sym_population(n2));
    let k: usize = sym();
    assume(k <= 5);
    let mut a = ElitistArchive::<ScalarProblem>::new();
    a.update(&p1, k);
    check_k_best(a.elitists(), &p1, k);
    a.update(&p2, k);
    let mut shown = p1.clone();
    shown.extend(p2.iter().cloned());
    check_k_best(a.elitists(), &shown, k);
    crate::vcover!(k > n1);
    crate::vcover!(k == 0);
}
/// two single-individual updates, expectations written out (cheap for CBMC: no multiset bookkeeping)
/// @verif anchor=ElitistArchive::update bound="updates with 1 then 1 individuals; k <= 3; all objective values"
#[cfg_attr(kani, kani::proof)] #[cfg_attr(kani, kani::unwind(6))]
pub fn c07_archive_1_1() {
    let (x, y) = (sym_individual(), sym_individual());
    let k: usize = sym();
    assume(k <= 3);
    let mut a = ElitistArchive::<ScalarProblem>::new();
    a.update(std::slice::from_ref(&x), k);
    assert!(a.elitists().len() == if k >= 1 { 1 } else { 0 }, "after the first update the archive holds min(k, 1) individuals");
    if k >= 1 { assert!(a.elitists()[0].solution() == x.solution() && a.elitists()[0].objective() == x.objective()); }
    a.update(std::slice::from_ref(&y), k);
    let e = a.elitists();
    let (lo, hi) = if y.objective() < x.objective() { (&y, &x) } else { (&x, &y) };
    if k == 0 { assert!(e.is_empty(), "capacity 0 holds nothing"); }
    if k == 1 {
        assert!(e.len() == 1, "capacity 1 holds one individual");
        assert!(e[0].objective() == lo.objective(), "the archive does not hold the best individual it has been shown");
    }
    if k >= 2 {
        assert!(e.len() == 2, "with room left, everything shown so far must be kept");
        assert!(e[0].objective() == lo.objective() && e[1].objective() == hi.objective(), "archive is not the sorted k best");
        assert!((e[0].solution() == lo.solution() && e[1].solution() == hi.solution()) || x.objective() == y.objective(),
                "objective values must stay with their individuals");
    }
    crate::vcover!(k == 2);
    std::mem::forget(a);
}
/// @verif anchor=ElitistArchive::update tier=thorough bound="updates with 1 then 2 individuals; k <= 5; all objective values"
#[cfg_attr(kani, kani::proof)] #[cfg_attr(kani, kani::unwind(8))]
pub fn c07_archive_1_2() { two_updates(1, 2) }
/// @verif anchor=ElitistArchive::update tier=thorough bound="updates with 2 then 2 individuals; k <= 5"
#[cfg_attr(kani, kani::proof)] #[cfg_attr(kani, kani::unwind(8))]
pub fn c07_archive_2_2() { two_updates(2, 2) }
