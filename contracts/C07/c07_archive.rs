//! C07 — elitist archive kernel (`ElitistArchive::update` is private: this file is injected as a child module
//! of components::archive in the scratch copy).  "An elitist archive of capacity k holds, after each update, the
//! k best individuals it has been shown so far."
use super::*;
use crate::verif_harness::*;

type I = crate::Individual<ScalarProblem>;

fn check_k_best(arch: &[I], shown: &[I], k: usize) {
    let want = if k < shown.len() { k } else { shown.len() };
    assert!(arch.len() == want, "archive size is not min(k, number shown)");
    for i in 1..arch.len() {
        assert!(arch[i - 1].objective() <= arch[i].objective(), "archive is not sorted by objective");
    }
    for x in arch {
        assert!(occurrences(arch, x) <= occurrences(shown, x), "archive holds an individual it was not shown (or too often)");
    }
    if let Some(worst) = arch.last() {
        for x in shown {
            if occurrences(arch, x) < occurrences(shown, x) {
                assert!(worst.objective() <= x.objective(), "a discarded individual is better than a kept one");
            }
        }
    }
}

fn two_updates(n1: usize, n2: usize, k: usize) {
    // the capacity is CONCRETE per call: a symbolic capacity makes `Vec::truncate` intractable for CBMC
    let (p1, p2) = (sym_population(n1), sym_population(n2));
    let mut a = ElitistArchive::<ScalarProblem>::new();
    a.update(&p1, k);
    check_k_best(a.elitists(), &p1, k);
    a.update(&p2, k);
    let mut shown = p1.clone();
    shown.extend(p2.iter().cloned());
    check_k_best(a.elitists(), &shown, k);
}
/// @verif anchor=ElitistArchive::update tier=thorough bound="updates with 1 then 2 individuals; capacities 0..4; all objective values"
#[cfg_attr(kani, kani::proof)] #[cfg_attr(kani, kani::unwind(8))]
pub fn c07_archive_1_2() { two_updates(1, 2, 0); two_updates(1, 2, 1); two_updates(1, 2, 2); two_updates(1, 2, 3); two_updates(1, 2, 4); }
/// @verif anchor=ElitistArchive::update tier=thorough bound="updates with 2 then 2 individuals; capacities 1,2,3,5; all objective values"
#[cfg_attr(kani, kani::proof)] #[cfg_attr(kani, kani::unwind(8))]
pub fn c07_archive_2_2() { two_updates(2, 2, 1); two_updates(2, 2, 2); two_updates(2, 2, 3); two_updates(2, 2, 5); }

fn archive_k(k: usize) {
    let (x, y) = (sym_individual(), sym_individual());
    let mut a = ElitistArchive::<ScalarProblem>::new();
    a.update(std::slice::from_ref(&x), k);
    a.update(std::slice::from_ref(&y), k);
    let e = a.elitists();
    let (lo, hi) = if y.objective() < x.objective() { (&y, &x) } else { (&x, &y) };
    if k == 1 {
        assert!(e.len() == 1, "capacity 1 holds one individual");
        assert!(e[0].objective() == lo.objective(), "the archive does not hold the best individual it has been shown");
    } else {
        assert!(e.len() == 2, "with room left, everything shown so far must be kept");
        assert!(e[0].objective() == lo.objective() && e[1].objective() == hi.objective(), "archive is not the sorted k best");
    }
    std::mem::forget(a);
}
/// @verif anchor=ElitistArchive::update bound="updates with 1 then 1 individuals; capacities 0..3; all objective values"
#[cfg_attr(kani, kani::proof)] #[cfg_attr(kani, kani::unwind(6))]
pub fn c07_archive_1_1() {
    two_updates(1, 1, 0); two_updates(1, 1, 1); two_updates(1, 1, 2); two_updates(1, 1, 3);
}
/// @verif anchor=ElitistArchive::update bound="updates with 1 then 1 individuals; capacity 1; all objective values"
#[cfg_attr(kani, kani::proof)] #[cfg_attr(kani, kani::unwind(5))]
pub fn c07_archive_k1() { archive_k(1) }
/// @verif anchor=ElitistArchive::update bound="updates with 1 then 1 individuals; capacity 3 (room left); all objective values"
#[cfg_attr(kani, kani::proof)] #[cfg_attr(kani, kani::unwind(5))]
pub fn c07_archive_k3() { archive_k(3) }
