//! C07 — BOUNDED STAND-IN (not a proof) for histories of `ElitistArchive::update` (the unbounded per-update contract is the
//! Verus unit `archive_update`, which also proves the history invariant; this run decides changed code that unit cannot
//! parse and on which the Kani kernels time out): "an elitist archive of capacity k holds, after each update, the k best individuals it has been shown so far".
//! Native exhaustive enumeration on the real code: all sequences of 3 updates with populations of 0..2 individuals whose
//! objective values range over {1, 2, 3}, capacities 0..4.  Injected as a child module of components::archive (private fn).
use super::*;
use crate::verif_harness::ScalarProblem;

type I = crate::Individual<ScalarProblem>;

fn populations() -> Vec<Vec<u8>> {
    let mut out = vec![vec![]];
    for a in 1..=3u8 { out.push(vec![a]); }
    for a in 1..=3u8 { for b in 1..=3u8 { out.push(vec![a, b]); } }
    out
}

// @native-harness
pub fn c07_native_archive_histories() {
    let pops = populations();
    let mut cases = 0u64;
    for k in 0..=4usize {
        for p1 in &pops { for p2 in &pops { for p3 in &pops {
            let mut a = ElitistArchive::<ScalarProblem>::new();
            let mut shown: Vec<(u8, u8)> = Vec::new();       // (tag, objective)
            let mut tag = 0u8;
            for (step, p) in [p1, p2, p3].into_iter().enumerate() {
                let pop: Vec<I> = p.iter().map(|o| { tag += 1; shown.push((tag, *o)); I::new(tag, crate::SingleObjective::try_from(*o as f64).unwrap()) }).collect();
                a.update(&pop, k);
                let held: Vec<(u8, u8)> = a.elitists().iter().map(|i| (*i.solution(), i.objective().value() as u8)).collect();
                let fail = |why: &str| -> ! {
                    eprintln!("COUNTEREXAMPLE capacity={k} updates={:?} after update {}: {why}; archive holds (tag, objective) {:?}, shown so far {:?}", [p1, p2, p3], step + 1, held, shown);
                    panic!("elitist archive does not hold the k best shown so far")
                };
                let mut best: Vec<u8> = shown.iter().map(|s| s.1).collect();
                best.sort_unstable();
                best.truncate(k);
                if held.iter().map(|h| h.1).collect::<Vec<_>>() != best { fail("the objective values held are not the k best shown so far, in order") }
                for (i, h) in held.iter().enumerate() {
                    if !shown.contains(h) { fail("the archive holds an individual it was never shown") }
                    if held[..i].contains(h) { fail("the archive holds the same shown individual twice") }
                }
            }
            cases += 1;
        }}}
    }
    println!("c07_native_archive_histories: {} histories checked", cases);
}
