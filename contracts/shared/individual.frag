// Contracts of `Individual` (C05); shared so that callers are verified against these contracts only.
//@struct src/problems/individual.rs :: Individual

//@implhdr src/problems/individual.rs :: impl<P: Problem + ?Sized> Individual<P>
//@fn src/problems/individual.rs :: impl<P: Problem + ?Sized> Individual<P> :: new :: ret=r
    ensures r.solution == solution, r.objective == Some(objective),
//@endfn

//@fn src/problems/individual.rs :: impl<P: Problem + ?Sized> Individual<P> :: new_unevaluated :: ret=r
    ensures r.solution == solution, r.objective is None,
//@endfn

//@fn src/problems/individual.rs :: impl<P: Problem + ?Sized> Individual<P> :: evaluate_with
    requires
        objective_fn.requires((&old(self).solution,)),
    ensures
        // the solution is not touched, and the stored value is what the function returned for it
        final(self).solution == old(self).solution,
        final(self).objective is Some,
        objective_fn.ensures((&old(self).solution,), final(self).objective->0),
//@endfn

//@fn src/problems/individual.rs :: impl<P: Problem + ?Sized> Individual<P> :: set_objective :: ret=r
    ensures
        final(self).solution == old(self).solution,
        final(self).objective == Some(objective),
        r == old(self).objective.is_some(),
//@endfn

//@fn src/problems/individual.rs :: impl<P: Problem + ?Sized> Individual<P> :: solution :: ret=r
    ensures *r == self.solution,
//@endfn

//@fn src/problems/individual.rs :: impl<P: Problem + ?Sized> Individual<P> :: solution_mut :: ret=r
    ensures
        // handing out mutable access to the solution drops the cached objective value ...
        final(self).objective is None,
        // ... hands out exactly the stored solution ...
        *r == old(self).solution,
        // ... and whatever the caller writes through it is the new solution.
        final(self).solution == *final(r),
//@endfn

//@fn src/problems/individual.rs :: impl<P: Problem + ?Sized> Individual<P> :: into_solution :: ret=r
    ensures r == self.solution,
//@endfn

//@fn src/problems/individual.rs :: impl<P: Problem + ?Sized> Individual<P> :: is_evaluated :: ret=r
    ensures r == self.objective.is_some(),
//@endfn

//@fn src/problems/individual.rs :: impl<P: Problem + ?Sized> Individual<P> :: get_objective :: ret=r
    ensures
        r is Some <==> self.objective is Some,
        r is Some ==> *r->0 == self.objective->0,
//@endfn

//@fn src/problems/individual.rs :: impl<P: Problem + ?Sized> Individual<P> :: objective :: ret=r
    requires self.objective is Some,
    ensures *r == self.objective->0,
//@endfn
}

// every function that can touch the two fields must be under contract (new ones => undecided, exit 2)
//@inventory src/problems/individual.rs :: impl<P: Problem + ?Sized> Individual<P> :: new, new_unevaluated, evaluate_with, set_objective, solution, solution_mut, into_solution, is_evaluated, get_objective, objective
//@inventory src/problems/individual.rs :: impl<P: Problem> Clone for Individual<P> :: clone, clone_from

//@implhdr src/problems/individual.rs :: impl<P: Problem> Clone for Individual<P> :: rehome
//@fn src/problems/individual.rs :: impl<P: Problem> Clone for Individual<P> :: clone :: ret=r :: novis
    ensures
        // a copy keeps solution and objective together
        cloned(self.solution, r.solution),
        self.objective is Some <==> r.objective is Some,
        self.objective is Some ==> cloned(self.objective->0, r.objective->0),
//@endfn

//@fn src/problems/individual.rs :: impl<P: Problem> Clone for Individual<P> :: clone_from :: novis :: optional
    ensures
        // an overriding `clone_from` must behave like `*self = source.clone()`
        cloned(source.solution, final(self).solution),
        source.objective is Some <==> final(self).objective is Some,
        source.objective is Some ==> cloned(source.objective->0, final(self).objective->0),
//@endfn
}


// The trait impl itself (the method above is the real `clone`, re-homed so that its body is verified): present so that code
// which copies individuals through `Clone` (`.cloned()`, `.to_vec()`, `Vec::clone`) typechecks and is decided against the contracts.
impl<P: Problem> Clone for Individual<P> {
    #[verifier::external_body]
    fn clone(&self) -> (r: Self)
        ensures
            cloned(self.solution, r.solution),
            self.objective is Some <==> r.objective is Some,
            self.objective is Some ==> cloned(self.objective->0, r.objective->0),
    { unimplemented!() }
}
