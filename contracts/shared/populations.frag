// Contracts of `Populations` (C04); shared so that callers are verified against these contracts only.
//@struct src/state/common.rs :: Populations

//@implhdr src/state/common.rs :: impl<P: Problem> Populations<P>
//@fn src/state/common.rs :: impl<P: Problem> Populations<P> :: new :: ret=r
    ensures r.stack@ == Seq::<Vec<Individual<P>>>::empty(),
//@endfn

//@fn src/state/common.rs :: impl<P: Problem> Populations<P> :: push
    ensures final(self).stack@ == old(self).stack@.push(population),
//@endfn

//@fn src/state/common.rs :: impl<P: Problem> Populations<P> :: pop :: ret=r
    requires old(self).stack@.len() > 0,
    ensures
        final(self).stack@ == old(self).stack@.drop_last(),
        r == old(self).stack@.last(),
//@endfn

//@fn src/state/common.rs :: impl<P: Problem> Populations<P> :: try_pop :: ret=r
    ensures
        old(self).stack@.len() == 0 ==> r is None && final(self).stack@ == old(self).stack@,
        old(self).stack@.len() > 0 ==> r == Some(old(self).stack@.last())
            && final(self).stack@ == old(self).stack@.drop_last(),
//@endfn

//@fn src/state/common.rs :: impl<P: Problem> Populations<P> :: get_current :: ret=r
    ensures
        self.stack@.len() == 0 ==> r is None,
        self.stack@.len() > 0 ==> r is Some && r->0@ == self.stack@.last()@,
//@closure 0 :: ret=q: &[Individual<P>]
    ensures q@ == p@
//@endfn

//@fn src/state/common.rs :: impl<P: Problem> Populations<P> :: current :: ret=r
    requires self.stack@.len() > 0,
    ensures r@ == self.stack@.last()@,
//@endfn

//@fn src/state/common.rs :: impl<P: Problem> Populations<P> :: get_current_mut :: ret=r
    ensures
        old(self).stack@.len() == 0 ==> r is None && final(self).stack@ == old(self).stack@,
        old(self).stack@.len() > 0 ==> r is Some && *r->0 == old(self).stack@.last()
            && final(self).stack@ == old(self).stack@.drop_last().push(*final(r->0)),
//@endfn

//@fn src/state/common.rs :: impl<P: Problem> Populations<P> :: current_mut :: ret=r
    requires old(self).stack@.len() > 0,
    ensures
        *r == old(self).stack@.last(),
        final(self).stack@ == old(self).stack@.drop_last().push(*final(r)),
//@endfn

//@fn src/state/common.rs :: impl<P: Problem> Populations<P> :: try_peek :: ret=r
    ensures
        depth >= self.stack@.len() ==> r is None,
        depth < self.stack@.len() ==> r is Some && r->0@ == self.stack@[self.stack@.len() - 1 - depth]@,
//@closure 0 :: ret=q: Option<usize>
    ensures q == (if i >= depth { Some((i - depth) as usize) } else { None })
//@closure 1 :: ret=q: Option<&Vec<Individual<P>>>
    ensures q == (if i < self.stack@.len() { Some(&self.stack@[i as int]) } else { None })
//@closure 2 :: ret=q: &[Individual<P>]
    ensures q@ == p@
//@endfn

//@fn src/state/common.rs :: impl<P: Problem> Populations<P> :: peek :: ret=r
    requires depth < self.stack@.len(),
    ensures r@ == self.stack@[self.stack@.len() - 1 - depth]@,
//@endfn

//@fn src/state/common.rs :: impl<P: Problem> Populations<P> :: rotate
    requires n <= old(self).stack@.len(),
    ensures
        final(self).stack@ == rotated(old(self).stack@, n as int),
//@subst vec_range_index_mut
//@endfn

//@fn src/state/common.rs :: impl<P: Problem> Populations<P> :: is_empty :: ret=r
    ensures r == (self.stack@.len() == 0),
//@endfn

//@fn src/state/common.rs :: impl<P: Problem> Populations<P> :: len :: ret=r
    ensures r == self.stack@.len(),
//@endfn
}

/// "rotating the top n populations shifts exactly those n by one position": the former top moves
/// to depth n-1, the others move up by one, everything below is untouched.
pub open spec fn rotated<T>(s: Seq<T>, n: int) -> Seq<T> {
    if n <= 0 { s } else {
        s.subrange(0, s.len() - n).push(s.last()) + s.subrange(s.len() - n, s.len() - 1)
    }
}

/// k-fold rotation
pub open spec fn rotated_k<T>(s: Seq<T>, n: int, k: nat) -> Seq<T>
    decreases k
{
    if k == 0 { s } else { rotated(rotated_k(s, n, (k - 1) as nat), n) }
}

