// Contract of `BestIndividual::update` (C07); shared.
//@struct src/state/common.rs :: BestIndividual

/// the objective of the stored best, if any
pub open spec fn best_obj<P: SingleObjectiveProblem>(b: BestIndividual<P>) -> Option<SingleObjective> {
    if b.0 is Some { b.0->0.objective } else { None }
}

//@implhdr src/state/common.rs :: impl<P: SingleObjectiveProblem> BestIndividual<P>
//@fn src/state/common.rs :: impl<P: SingleObjectiveProblem> BestIndividual<P> :: new :: ret=r
    ensures r.0 is None,
//@endfn

//@fn src/state/common.rs :: impl<P: SingleObjectiveProblem> BestIndividual<P> :: update :: ret=r
    requires
        candidate.objective is Some,
        old(self).0 is Some ==> old(self).0->0.objective is Some,
    ensures
        // replaced exactly when there was no best yet or the candidate is STRICTLY better
        r == (old(self).0 is None || so_lt(candidate.objective->0, old(self).0->0.objective->0)),
        // on replacement the stored individual is a copy of the candidate (solution and objective together)
        r ==> final(self).0 is Some
            && cloned(candidate.solution, final(self).0->0.solution)
            && final(self).0->0.objective == candidate.objective,
        // otherwise nothing changes
        !r ==> final(self).0 == old(self).0,
        // consequences stated by the property: never worse than before, never worse than the candidate
        final(self).0 is Some && final(self).0->0.objective is Some,
        so_le(final(self).0->0.objective->0, candidate.objective->0),
        old(self).0 is Some ==> so_le(final(self).0->0.objective->0, old(self).0->0.objective->0),
//@hint before /if let Some\(individual\) = &mut self\.0/
        broadcast use group_so_order;
//@endfn
}

