//! C20 — "keeps exactly one molecule record per individual of the population in the same order": the records are created by
//! `ChemicalReactionInit::execute` and start with the configured kinetic energy and no hits; the shared buffer starts with the
//! configured energy.  Hoare triple on the real component over a real `State` (association-list map under Kani).
use super::*;
use crate::{
    components::misc::cro::{ChemicalReaction, ChemicalReactionInit, EnergyBuffer, Molecule},
    state::common::Populations,
    Component, State,
};

/// `Molecule::new` and `Molecule::update_best`: a fresh record holds the given individual and energy and no hits; the record's
/// best is replaced exactly by a strictly better individual (and then remembers the hit count), otherwise nothing changes
/// @verif anchor=Molecule::update_best bound="complete: loop-free, all tags and legal objective values"
#[cfg_attr(kani, kani::proof)]
pub fn c20_molecule_record() {
    let (a, b) = (sym_individual(), sym_individual());
    let ke: f64 = sym();
    let mut m = Molecule::<ScalarProblem>::new(ke, a.clone());
    assert!(m.kinetic_energy.to_bits() == ke.to_bits() && m.num_hit == 0 && m.min_hit == 0 && m.best == a, "a fresh molecule record holds the individual, the energy and no hits");
    let hits: u32 = sym();
    m.num_hit = hits;
    let replaced = m.update_best(&b);
    assert!(replaced == (b.objective() < a.objective()), "the record's best is replaced exactly by a strictly better individual");
    if replaced { assert!(m.best == b && m.min_hit == hits); } else { assert!(m.best == a && m.min_hit == 0); }
    assert!(m.kinetic_energy.to_bits() == ke.to_bits() && m.num_hit == hits, "update_best must not touch the energy or the hit count");
}

fn init_records(n: usize) {
    let mut state: State<ScalarProblem> = State::new();
    state.insert(Populations::<ScalarProblem>::new());
    let pop = sym_population(n);
    state.populations_mut().push(pop.clone());
    let (ke, buffer): (f64, f64) = (sym(), sym());
    let c = ChemicalReactionInit::from_params(ke, buffer);
    match <ChemicalReactionInit as Component<ScalarProblem>>::init(&c, &ScalarProblem, &mut state) { Ok(()) => {}, Err(e) => { std::mem::forget(e); assert!(false, "init must not fail"); } }
    match <ChemicalReactionInit as Component<ScalarProblem>>::execute(&c, &ScalarProblem, &mut state) { Ok(()) => {}, Err(e) => { std::mem::forget(e); assert!(false, "execute must not fail"); } }
    {
        let r = state.borrow::<ChemicalReaction<ScalarProblem>>();
        assert!(r.len() == n, "exactly one molecule record per individual");
        for i in 0..n {
            assert!(r[i].best == pop[i], "record i belongs to individual i (same order)");
            assert!(r[i].kinetic_energy.to_bits() == ke.to_bits() && r[i].num_hit == 0 && r[i].min_hit == 0, "a fresh record starts with the configured kinetic energy and no hits");
        }
        assert!(state.get_value::<EnergyBuffer>().to_bits() == buffer.to_bits(), "the buffer starts with the configured energy");
        let pops = state.populations();
        assert!(pops.len() == 1 && pops.current().len() == n, "the population is left as it was");
    }
    std::mem::forget(state);
}
/// @verif anchor=ChemicalReactionInit::execute bound="population size 2; all tags, objective values, energies"
#[cfg_attr(kani, kani::proof)] #[cfg_attr(kani, kani::unwind(6))]
pub fn c20_init_records_2() { init_records(2) }
/// @verif anchor=ChemicalReactionInit::execute tier=thorough bound="population sizes 0 and 3"
#[cfg_attr(kani, kani::proof)] #[cfg_attr(kani, kani::unwind(7))]
pub fn c20_init_records_0_3() { init_records(0); init_records(3) }
