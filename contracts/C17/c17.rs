//! C17 — "geometric cooling multiplies the temperature by its factor exactly once per execution": the mapping kernel.
use super::*;
use crate::{
    components::{mapping::{sa::GeometricCooling, Mapping}, replacement::sa::Temperature},
    lens::ValueOf,
    state::random::Random,
};

/// @verif anchor=GeometricCooling::map pre="alpha in [0,1) as from_params admits; finite temperature"
#[cfg_attr(kani, kani::proof)]
pub fn c17_geometric_cooling_map() {
    let (alpha, t): (f64, f64) = (sym(), sym());
    // `from_params` admits alpha in [0, 1); temperatures are finite
    assume(alpha >= 0.0 && alpha < 1.0 && t.is_finite());
    let g = GeometricCooling { alpha, lens: ValueOf::<Temperature>::new() };
    let mut rng = Random::with_rng::<SymRng>(0);
    let r = <GeometricCooling<ValueOf<Temperature>> as Mapping<ScalarProblem>>::map(&g, t, &mut rng);
    match r {
        Ok(v) => assert!(v.to_bits() == (t * alpha).to_bits(), "cooling must multiply the temperature by alpha exactly once"),
        Err(e) => { std::mem::forget(e); assert!(false, "cooling must not fail"); }
    }
}
