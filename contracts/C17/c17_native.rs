//! C17 — BOUNDED STAND-IN (not a proof) for the float part of the Metropolis rule that neither verifier decides
//! (Verus: float comparisons are uninterpreted; Kani: the State-based body constructs eyre reports).  Native run of
//! the real `ExponentialAnnealingAcceptance::execute` over a grid of objective pairs, temperatures and seeds.
use super::*;
use crate::{
    components::replacement::sa::ExponentialAnnealingAcceptance,
    state::{common::Populations, random::Random},
    Component, Individual, State,
};

type P = ScalarProblem;
fn ind(tag: u8, f: f64) -> Vec<Individual<P>> { vec![Individual::new(tag, crate::SingleObjective::try_from(f).unwrap())] }

/// runs one acceptance step; returns the tag of the survivor (1 = current, 2 = candidate)
fn step(f_cur: f64, f_cand: f64, t: f64, seed: u64, third: bool) -> u8 {
    let acc: Box<dyn Component<P>> = ExponentialAnnealingAcceptance::new(t);
    let mut state: State<P> = State::new();
    state.insert(Random::new(seed));
    state.insert(Populations::<P>::new());
    acc.init(&ScalarProblem, &mut state).unwrap();
    if third { state.populations_mut().push(ind(9, 7.0)); }
    state.populations_mut().push(ind(1, f_cur));
    state.populations_mut().push(ind(2, f_cand));
    acc.execute(&ScalarProblem, &mut state).unwrap();
    let pops = state.populations();
    let want_h = if third { 2 } else { 1 };
    if pops.len() != want_h { eprintln!("COUNTEREXAMPLE f_cur={f_cur} f_cand={f_cand} T={t} seed={seed} third={third}: stack height {}", pops.len()); panic!("two populations must be reduced to one"); }
    if third && *pops.peek(1)[0].solution() != 9 { eprintln!("COUNTEREXAMPLE third population disturbed"); panic!("rest of the stack must be untouched"); }
    let s = &pops.current()[0];
    let tag = *s.solution();
    let f = s.objective().value();
    if !((tag == 1 && f == f_cur) || (tag == 2 && f == f_cand)) { eprintln!("COUNTEREXAMPLE survivor tag={tag} f={f}"); panic!("survivor must be one of the two, whole"); }
    tag
}

// @native-harness
pub fn c17_native_metropolis_grid() {
    let values = [-3.0, -1.0, 0.0, 0.5, 1.0, 2.0, 1.0e6, f64::INFINITY];
    let temps = [1.0e-9, 0.01, 1.0, 100.0, 1.0e12];
    let mut n = 0u64;
    for &f_cur in &values {
        for &f_cand in &values {
            if f_cur.is_infinite() && f_cand.is_infinite() { continue; } // inf - inf: objective arithmetic is the C09 known finding
            for &t in &temps {
                for seed in 0..25u64 {
                    for third in [false, true] {
                        let tag = step(f_cur, f_cand, t, seed, third);
                        n += 1;
                        // "a candidate at least as good as the current solution always replaces it"
                        if f_cand <= f_cur && tag != 2 {
                            eprintln!("COUNTEREXAMPLE f_cur={f_cur} f_cand={f_cand} T={t} seed={seed} third={third}: an at-least-as-good candidate was rejected");
                            panic!("Metropolis rule violated");
                        }
                        // "never as T approaches zero": a candidate worse by >= 0.5 at T = 1e-9 has acceptance probability exp(-5e8) = 0
                        if f_cand >= f_cur + 0.5 && t == 1.0e-9 && tag != 1 {
                            eprintln!("COUNTEREXAMPLE f_cur={f_cur} f_cand={f_cand} T={t} seed={seed}: a worse candidate was accepted at T ~ 0");
                            panic!("Metropolis rule violated");
                        }
                    }
                }
            }
        }
    }
    println!("c17_native_metropolis_grid: {} acceptance steps checked", n);
}
