//! C17 — BOUNDED STAND-IN (not a proof) for the float part of the Metropolis rule that neither verifier decides
//! (Verus: float comparisons are uninterpreted; Kani: the State-based body constructs eyre reports).  Native run of
//! the real `ExponentialAnnealingAcceptance::execute` over a grid of objective pairs, temperatures and seeds.
use super::*;
use crate::{
    components::replacement::sa::ExponentialAnnealingAcceptance,
    state::{common::Populations, random::Random},
    Component, Individual, State,
};

type P = ScalarProblem;
fn ind(tag: u8, f: f64) -> Vec<Individual<P>> { vec![Individual::new(tag, crate::SingleObjective::try_from(f).unwrap())] }

/// runs one acceptance step; returns the tag of the survivor (1 = current, 2 = candidate)
fn step(f_cur: f64, f_cand: f64, t: f64, seed: u64, third: bool) -> u8 {
    let acc: Box<dyn Component<P>> = ExponentialAnnealingAcceptance::new(t);
    let mut state: State<P> = State::new();
    state.insert(Random::new(seed));
    state.insert(Populations::<P>::new());
    acc.init(&ScalarProblem, &mut state).unwrap();
    if third { state.populations_mut().push(ind(9, 7.0)); }
    state.populations_mut().push(ind(1, f_cur));
    state.populations_mut().push(ind(2, f_cand));
    acc.execute(&ScalarProblem, &mut state).unwrap();
    let pops = state.populations();
    let want_h = if third { 2 } else { 1 };
    if pops.len() != want_h { eprintln!("COUNTEREXAMPLE f_cur={f_cur} f_cand={f_cand} T={t} seed={seed} third={third}: stack height {}", pops.len()); panic!("two populations must be reduced to one"); }
    if third && *pops.peek(1)[0].solution() != 9 { eprintln!("COUNTEREXAMPLE third population disturbed"); panic!("rest of the stack must be untouched"); }
    let s = &pops.current()[0];
    let tag = *s.solution();
    let f = s.objective().value();
    if !((tag == 1 && f == f_cur) || (tag == 2 && f == f_cand)) { eprintln!("COUNTEREXAMPLE survivor tag={tag} f={f}"); panic!("survivor must be one of the two, whole"); }
    tag
}

// @native-harness
pub fn c17_native_metropolis_grid() {
    let values = [-3.0, -1.0, 0.0, 0.5, 1.0, 1.0 + f64::EPSILON, 1.0 + 1.0e-9, 2.0, 1.0e6, f64::INFINITY];
    let temps = [1.0e-300, 1.0e-20, 1.0e-9, 0.01, 1.0, 100.0, 1.0e12, 1.0e300];
    let mut n = 0u64;
    for &f_cur in &values {
        for &f_cand in &values {
            for &t in &temps {
                for seed in 0..25u64 {
                    for third in [false, true] {
                        let tag = step(f_cur, f_cand, t, seed, third);
                        n += 1;
                        // "a candidate at least as good as the current solution always replaces it" (two infinite values are equally good)
                        if f_cand <= f_cur && tag != 2 {
                            eprintln!("COUNTEREXAMPLE f_cur={f_cur} f_cand={f_cand} T={t} seed={seed} third={third}: an at-least-as-good candidate was rejected");
                            panic!("Metropolis rule violated");
                        }
                        // "never as T approaches zero": exp(-x) is exactly 0.0 in f64 for x > 746, so a candidate worse by more than
                        // 750 T has acceptance probability 0 whatever the draw
                        if f_cand > f_cur && (f_cand - f_cur) / t > 750.0 && tag != 1 {
                            eprintln!("COUNTEREXAMPLE f_cur={f_cur} f_cand={f_cand} T={t} seed={seed}: a worse candidate was accepted although exp(-(f_cand - f_cur) / T) = 0");
                            panic!("Metropolis rule violated");
                        }
                        // "always as T grows without bound": exp(-x) is exactly 1.0 in f64 for 0 <= x < 1e-17, and the draw lies in [0, 1)
                        if f_cand > f_cur && (f_cand - f_cur) / t < 1.0e-17 && tag != 2 {
                            eprintln!("COUNTEREXAMPLE f_cur={f_cur} f_cand={f_cand} T={t} seed={seed}: a worse candidate was rejected although exp(-(f_cand - f_cur) / T) = 1");
                            panic!("Metropolis rule violated");
                        }
                    }
                }
            }
        }
    }
    println!("c17_native_metropolis_grid: {} acceptance steps checked", n);
}

// "a worse candidate replaces it with probability exp(-(f(candidate) - f(current)) / T)": acceptance frequencies over 4000 fixed
// seeds compared with the stated probability under a wide tolerance (+-0.05 absolute: more than six standard deviations)
// @native-harness
pub fn c17_native_acceptance_frequency() {
    let mut cells = 0u64;
    for &(f_cur, delta, t) in &[(0.0, 0.1, 1.0), (0.0, 0.7, 1.0), (0.0, 2.3, 1.0), (5.0, 0.07, 0.1), (5.0, 0.23, 0.1), (-2.0, 70.0, 100.0),
                                (-2.0, 300.0, 100.0), (1.0e6, 1.0, 4.0), (0.0, 1.0e-12, 1.0e-12), (0.0, 3.0e-12, 1.0e-12), (0.0, 4.0, 1.0)] {
        let p: f64 = (-(delta / t) as f64).exp();
        let trials = 4000u64;
        let mut accepted = 0u64;
        for seed in 0..trials { if step(f_cur, f_cur + delta, t, 1000 + seed, false) == 2 { accepted += 1; } }
        let freq = accepted as f64 / trials as f64;
        cells += 1;
        if (freq - p).abs() > 0.05 {
            eprintln!("COUNTEREXAMPLE f_cur={f_cur} f_cand={} T={t}: a worse candidate was accepted in {accepted} of {trials} runs ({freq}), stated probability exp(-{delta}/{t}) = {p}", f_cur + delta);
            panic!("acceptance frequency differs from the stated probability");
        }
    }
    println!("c17_native_acceptance_frequency: {} (margin, temperature) cells x 4000 seeds", cells);
}
