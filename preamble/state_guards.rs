// TRUSTED MIRROR (guard-local mirror of `State`, DESIGN §3.2): accessors take `&self` and return an OWNED guard
// object holding a snapshot of the component; `Deref`/`DerefMut` make the real call syntax
// (`populations.pop()`, `&mut state.random_mut()`) resolve unchanged.  What the guard holds when it is dropped is
// what the state holds afterwards, and guards of different types are independent: that step is `RefCell`'s
// contract plus C01/C02 (assumed here).  Effects of a body are therefore stated as ghost assertions over the
// guards immediately before the function returns.
#[verifier::external_body]
#[verifier::reject_recursive_types(P)]
pub struct State<P> { _p: core::marker::PhantomData<P> }

#[verifier::external_body]
pub struct Random { _p: () }

pub struct PopsGuard<P: Problem> { pub inner: Populations<P> }
impl<P: Problem> core::ops::Deref for PopsGuard<P> {
    type Target = Populations<P>;
    fn deref(&self) -> (r: &Populations<P>) ensures *r == self.inner { &self.inner }
}
impl<P: Problem> core::ops::DerefMut for PopsGuard<P> {
    fn deref_mut(&mut self) -> (r: &mut Populations<P>)
        ensures *r == old(self).inner, final(self).inner == *final(r)
    { &mut self.inner }
}
pub struct RandGuard { pub inner: Random }
impl core::ops::Deref for RandGuard {
    type Target = Random;
    fn deref(&self) -> (r: &Random) ensures *r == self.inner { &self.inner }
}
impl core::ops::DerefMut for RandGuard {
    fn deref_mut(&mut self) -> (r: &mut Random)
        ensures *r == old(self).inner, final(self).inner == *final(r)
    { &mut self.inner }
}

pub uninterp spec fn pops_of<P: Problem>(s: State<P>) -> Populations<P>;
pub uninterp spec fn rng_of<P: Problem>(s: State<P>) -> Random;

impl<P: Problem> State<P> {
    #[verifier::external_body]
    pub fn populations_mut(&self) -> (g: PopsGuard<P>)
        ensures g.inner == pops_of(*self),
    { unimplemented!() }
    #[verifier::external_body]
    pub fn populations(&self) -> (g: PopsGuard<P>)
        ensures g.inner == pops_of(*self),
    { unimplemented!() }
    #[verifier::external_body]
    pub fn random_mut(&self) -> (g: RandGuard)
        ensures g.inner == rng_of(*self),
    { unimplemented!() }
}

// mirror of `eyre::WrapErr::wrap_err` on ExecResult: Ok is passed through unchanged, Err stays Err
pub trait WrapErr<T> {
    fn wrap_err(self, msg: &'static str) -> (r: ExecResult<T>);
}
impl<T> WrapErr<T> for ExecResult<T> {
    #[verifier::external_body]
    fn wrap_err(self, msg: &'static str) -> (r: ExecResult<T>)
        ensures self is Ok ==> r == self, self is Err ==> r is Err,
    { unimplemented!() }
}
