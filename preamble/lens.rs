// TRUSTED MIRROR of the lens traits (src/lens/mod.rs): a lens is an ARBITRARY function of (problem, state).
pub trait AnyLens { type Target; }
pub trait Lens<P: Problem>: AnyLens {
    spec fn get_fn(&self, problem: &P, s: State<P>) -> ExecResult<Self::Target>;
    fn get(&self, problem: &P, state: &State<P>) -> (r: ExecResult<Self::Target>)
        ensures r == self.get_fn(problem, *state);
}
