// TRUSTED MIRROR for `Scope`: Verus has no function-pointer types, so the two fn-pointer fields of `Scope`
// (`state_init`, `states_merge`) are opaque callables with ARBITRARY behaviour, and the call syntax
// `(self.f)(args)` is rewritten to `fnptr_call_f(&self.f, args)` (closed-list rewrite `fn_ptr_call`).
// The struct below mirrors `components::control_flow::Scope` field by field (names and order as in the source).
#[verifier::external_body]
#[verifier::reject_recursive_types(P)]
pub struct StateInitFn<P> { _p: core::marker::PhantomData<P> }
#[verifier::external_body]
#[verifier::reject_recursive_types(P)]
pub struct StatesMergeFn<P> { _p: core::marker::PhantomData<P> }

pub uninterp spec fn state_init_fn<P>(f: StateInitFn<P>, pre: State<P>) -> (State<P>, ExecResult<()>);
pub uninterp spec fn states_merge_fn<P>(f: StatesMergeFn<P>, pre: State<P>, inner: State<P>) -> (State<P>, ExecResult<()>);

#[verifier::reject_recursive_types(P)]
pub struct Scope<P: Problem> {
    pub body: Box<dyn Component<P>>,
    pub state_init: StateInitFn<P>,
    pub states_merge: StatesMergeFn<P>,
}

#[verifier::external_body]
pub fn fnptr_call_state_init<P>(f: &StateInitFn<P>, state: &mut State<P>) -> (r: ExecResult<()>)
    ensures (*final(state), r) == state_init_fn(*f, *old(state)),
{ unimplemented!() }

#[verifier::external_body]
pub fn fnptr_call_states_merge<P>(f: &StatesMergeFn<P>, state: &mut State<P>, inner: State<P>) -> (r: ExecResult<()>)
    ensures (*final(state), r) == states_merge_fn(*f, *old(state), inner),
{ unimplemented!() }

// abstract view of the child-scope helper (its concrete contract over the registry view is the C03 unit
// `inner_state`, verified on the real `State::with_inner_state`):
//   child_of(s)  = s with one fresh empty scope on top;  parent_of(c) = c without its innermost scope;
//   top_of(c)    = the innermost scope of c as a state of its own.
pub uninterp spec fn child_of<P>(s: State<P>) -> State<P>;
pub uninterp spec fn parent_of<P>(c: State<P>) -> State<P>;
pub uninterp spec fn top_of<P>(c: State<P>) -> State<P>;

impl<P> State<P> {
    #[verifier::external_body]
    pub fn with_inner_state<F>(&mut self, f: F) -> (r: ExecResult<Self>)
        where F: FnOnce(&mut Self) -> ExecResult<()>,
        requires forall|a: &mut State<P>| #[trigger] f.requires((a,)),
        ensures
            exists|a: &mut State<P>, ret: ExecResult<()>| #[trigger] f.ensures((a,), ret)
                && *a == child_of(*old(self))
                && *final(self) == parent_of(*final(a))
                && (ret is Err ==> r is Err && r->Err_0 == ret->Err_0)
                && (ret is Ok ==> r is Ok && r->Ok_0 == top_of(*final(a))),
    { unimplemented!() }
}
