// TRUSTED MIRROR of `mahf::problems::Problem` (src/problems/mod.rs): only the associated types that the
// verified functions mention.  Real bounds: Encoding: Any + Clone + PartialEq + Send,
// Objective: Debug + Clone + Eq + PartialOrd + Send.
pub trait Problem: Sized + 'static {
    type Encoding: Clone + PartialEq;
    type Objective: Clone + PartialEq;
}
