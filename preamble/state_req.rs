// TRUSTED MIRROR: `State::requirements()` hands the requirement checker a read-only view of the current state.
pub uninterp spec fn req_of<P>(s: State<P>) -> StateReq<P>;
impl<P> State<P> {
    #[verifier::external_body]
    pub fn requirements(&self) -> (r: StateReq<P>)
        ensures r == req_of(*self),
    { unimplemented!() }
}
