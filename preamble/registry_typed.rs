// TRUSTED MIRROR of `StateRegistry` as a stack of type-keyed maps (C01's abstract view), innermost scope first.
// The contracts of find_mut / insert / remove below are the C01 contracts ("lookups, removals ... resolve to the
// innermost scope holding the type, inserts always go to the innermost scope"), discharged on the real registry
// by the C01 Kani units.  Values are type-erased in the view (`erase`/`unerase`).
#[verifier::external_body]
pub struct AnyVal { _p: () }
pub uninterp spec fn tid<T>() -> int;
pub uninterp spec fn erase<T>(t: T) -> AnyVal;
pub uninterp spec fn unerase<T>(v: AnyVal) -> T;
pub broadcast proof fn axiom_unerase_erase<T>(t: T)
    ensures #[trigger] unerase::<T>(erase::<T>(t)) == t,
{ admit(); }

pub type Scope = Map<int, AnyVal>;

#[verifier::external_body]
pub struct StateRegistry<'a> { _p: core::marker::PhantomData<&'a ()> }

pub struct StateError { pub _p: () }
pub type StateResult<T> = Result<T, StateError>;
// `impl From<StateError> for eyre::Report` (what `?` uses); the converted value is opaque
impl core::convert::From<StateError> for Report {
    #[verifier::external_body]
    fn from(e: StateError) -> (r: Report) { unimplemented!() }
}

/// index of the innermost scope holding key k at or after `from` (len if none)
pub open spec fn first_with(v: Seq<Scope>, k: int, from: int) -> int
    decreases v.len() - from
{
    if from < 0 || from >= v.len() { v.len() as int }
    else if v[from].contains_key(k) { from }
    else { first_with(v, k, from + 1) }
}

pub trait CustomState<'a>: Sized {}

impl<'a> StateRegistry<'a> {
    pub uninterp spec fn view(&self) -> Seq<Scope>;

    #[verifier::external_body]
    pub fn find_mut<T: CustomState<'a>>(&mut self) -> (r: StateResult<&mut Self>)
        ensures
            ({
                let v = old(self).view();
                let i = first_with(v, tid::<T>(), 0);
                &&& (i >= v.len() <==> r is Err)
                &&& r is Err ==> final(self).view() == v
                &&& r is Ok ==> r->Ok_0.view() == v.subrange(i, v.len() as int)
                    && final(self).view() == v.subrange(0, i) + final(r->Ok_0).view()
            }),
    { unimplemented!() }

    #[verifier::external_body]
    pub fn insert<T: CustomState<'a>>(&mut self, t: T) -> (r: Option<T>)
        requires old(self).view().len() >= 1,
        ensures
            final(self).view() == old(self).view().update(0, old(self).view()[0].insert(tid::<T>(), erase(t))),
    { unimplemented!() }

    #[verifier::external_body]
    pub fn remove<T: CustomState<'a>>(&mut self) -> (r: StateResult<T>)
        ensures
            ({
                let v = old(self).view();
                let i = first_with(v, tid::<T>(), 0);
                &&& (i >= v.len() <==> r is Err)
                &&& r is Err ==> final(self).view() == v
                &&& r is Ok ==> r->Ok_0 == unerase::<T>(v[i][tid::<T>()])
                    && final(self).view() == v.update(i, v[i].remove(tid::<T>()))
            }),
    { unimplemented!() }
}
