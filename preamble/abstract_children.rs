// TRUSTED MIRROR (abstract children): `State`, `StateReq`, `Component`, `Condition` as seen by a control-flow node.
// The state is opaque; every child is an ARBITRARY function of (problem, state) — so a node verified against these
// contracts is verified for every subtree (induction step of the structural induction over configuration trees).
// Real components are deterministic functions of the state because the random generator is part of the state.
#[verifier::external_body]
#[verifier::reject_recursive_types(P)]
pub struct State<P> { _p: core::marker::PhantomData<P> }

#[verifier::external_body]
#[verifier::reject_recursive_types(P)]
pub struct StateReq<P> { _p: core::marker::PhantomData<P> }

pub trait Component<P: Problem> {
    spec fn init_fn(&self, problem: &P, pre: State<P>) -> (State<P>, ExecResult<()>);
    spec fn require_fn(&self, problem: &P, req: &StateReq<P>) -> ExecResult<()>;
    spec fn exec_fn(&self, problem: &P, pre: State<P>) -> (State<P>, ExecResult<()>);

    fn init(&self, problem: &P, state: &mut State<P>) -> (r: ExecResult<()>)
        ensures (*final(state), r) == self.init_fn(problem, *old(state));
    fn require(&self, problem: &P, state_req: &StateReq<P>) -> (r: ExecResult<()>)
        ensures r == self.require_fn(problem, state_req);
    fn execute(&self, problem: &P, state: &mut State<P>) -> (r: ExecResult<()>)
        ensures (*final(state), r) == self.exec_fn(problem, *old(state));
}

pub trait Condition<P: Problem> {
    spec fn init_fn(&self, problem: &P, pre: State<P>) -> (State<P>, ExecResult<()>);
    spec fn require_fn(&self, problem: &P, req: &StateReq<P>) -> ExecResult<()>;
    spec fn eval_fn(&self, problem: &P, pre: State<P>) -> (State<P>, ExecResult<bool>);

    fn init(&self, problem: &P, state: &mut State<P>) -> (r: ExecResult<()>)
        ensures (*final(state), r) == self.init_fn(problem, *old(state));
    fn require(&self, problem: &P, state_req: &StateReq<P>) -> (r: ExecResult<()>)
        ensures r == self.require_fn(problem, state_req);
    fn evaluate(&self, problem: &P, state: &mut State<P>) -> (r: ExecResult<bool>)
        ensures (*final(state), r) == self.eval_fn(problem, *old(state));
}
