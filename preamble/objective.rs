// TRUSTED MIRROR of `mahf::SingleObjective` (src/problems/objective/single.rs): an opaque value with a
// total order.  The order laws assumed here (so_cmp total, antisymmetric, transitive, consistent with ==)
// are exactly the obligations discharged on the real type by the C09 Kani units.
#[verifier::external_body]
#[derive(Copy, Clone)]
pub struct SingleObjective { v: f64 }

pub uninterp spec fn so_cmp(a: SingleObjective, b: SingleObjective) -> Ordering;

pub open spec fn so_lt(a: SingleObjective, b: SingleObjective) -> bool { so_cmp(a, b) == Ordering::Less }
pub open spec fn so_le(a: SingleObjective, b: SingleObjective) -> bool { so_cmp(a, b) != Ordering::Greater }

// order laws (C09: cmp total / reflexive / antisymmetric / transitive over all f64 pairs and triples)
pub broadcast proof fn axiom_so_refl(a: SingleObjective)
    ensures #[trigger] so_cmp(a, a) == Ordering::Equal,
{ admit(); }
pub broadcast proof fn axiom_so_antisym(a: SingleObjective, b: SingleObjective)
    ensures (#[trigger] so_cmp(a, b) == Ordering::Less) <==> (so_cmp(b, a) == Ordering::Greater),
            (so_cmp(a, b) == Ordering::Equal) <==> (so_cmp(b, a) == Ordering::Equal),
{ admit(); }
pub broadcast proof fn axiom_so_trans(a: SingleObjective, b: SingleObjective, c: SingleObjective)
    requires #[trigger] so_le(a, b), #[trigger] so_le(b, c),
    ensures so_le(a, c),
            so_lt(a, b) || so_lt(b, c) ==> so_lt(a, c),
{ admit(); }
pub broadcast group group_so_order { axiom_so_refl, axiom_so_antisym, axiom_so_trans }

impl PartialEqSpecImpl for SingleObjective {
    open spec fn obeys_eq_spec() -> bool { true }
    open spec fn eq_spec(&self, other: &Self) -> bool { so_cmp(*self, *other) == Ordering::Equal }
}
impl PartialEq for SingleObjective {
    #[verifier::external_body]
    fn eq(&self, other: &Self) -> (r: bool) ensures r == (so_cmp(*self, *other) == Ordering::Equal) { self.v == other.v }
}
impl PartialOrdSpecImpl for SingleObjective {
    open spec fn obeys_partial_cmp_spec() -> bool { true }
    open spec fn partial_cmp_spec(&self, other: &Self) -> Option<Ordering> { Some(so_cmp(*self, *other)) }
}
impl PartialOrd for SingleObjective {
    #[verifier::external_body]
    fn partial_cmp(&self, other: &Self) -> (r: Option<Ordering>) ensures r == Some(so_cmp(*self, *other)) { self.v.partial_cmp(&other.v) }
}

// `trait_set! { pub trait SingleObjectiveProblem = Problem<Objective = SingleObjective>; }`
pub trait SingleObjectiveProblem: Problem<Objective = SingleObjective> {}
impl<T: Problem<Objective = SingleObjective>> SingleObjectiveProblem for T {}
