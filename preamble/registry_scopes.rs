// TRUSTED MIRROR of `StateRegistry`'s scope operations (src/state/registry/mod.rs): a registry is viewed as a
// non-empty sequence of scope maps, innermost first.  The contracts of new / into_child / into_parent stated here
// are the ones the C01 Kani units discharge on the real code ("scope push / pop").
#[verifier::external_body]
pub struct ScopeMap { _p: () }
pub uninterp spec fn empty_scope() -> ScopeMap;

#[verifier::external_body]
pub struct StateRegistry<'a> { _p: core::marker::PhantomData<&'a ()> }

impl<'a> StateRegistry<'a> {
    pub uninterp spec fn view(&self) -> Seq<ScopeMap>;

    #[verifier::external_body]
    pub fn new() -> (r: Self)
        ensures r.view() == seq![empty_scope()],
    { unimplemented!() }

    #[verifier::external_body]
    pub fn into_child(self) -> (r: Self)
        ensures r.view() == seq![empty_scope()] + self.view(),
    { unimplemented!() }

    #[verifier::external_body]
    pub fn into_parent(self) -> (r: (Option<Self>, Self))
        requires self.view().len() >= 1,
        ensures
            self.view().len() >= 2 ==> r.0 is Some && r.0->0.view() == self.view().drop_first(),
            self.view().len() < 2 ==> r.0 is None,
            r.1.view() == seq![self.view()[0]],
    { unimplemented!() }
}

impl<'a> Default for StateRegistry<'a> {
    #[verifier::external_body]
    fn default() -> (r: Self)
        ensures r.view() == seq![empty_scope()],
    { unimplemented!() }
}

// mirrored `std::mem::take` (closed-list rewrite `mem_take`): returns the old value, leaves Default::default()
#[verifier::external_body]
pub fn mem_take<'a>(dest: &mut StateRegistry<'a>) -> (r: StateRegistry<'a>)
    ensures r == *old(dest), final(dest).view() == seq![empty_scope()],
{ unimplemented!() }
