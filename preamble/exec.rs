// TRUSTED MIRROR of `mahf::component::ExecResult` = `eyre::Result` (src/component.rs): the error type is opaque.
#[verifier::external_body]
pub struct Report { _p: () }
pub type ExecResult<T> = Result<T, Report>;
impl Report {
    // an error value built by `eyre!`/`ensure!`: opaque
    #[verifier::external_body]
    pub fn adhoc() -> (r: Report) { unimplemented!() }
}
// `eyre::ensure!(cond, ...)`: return an ad-hoc error unless `cond` holds (closed-list rewrite `ensure_macro`)
macro_rules! verif_ensure {
    ($cond:expr $(, $rest:expr)* $(,)?) => {
        if !($cond) { return Err(Report::adhoc()); }
    };
}
