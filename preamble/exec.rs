// TRUSTED MIRROR of `mahf::component::ExecResult` = `eyre::Result` (src/component.rs): the error type is opaque.
#[verifier::external_body]
pub struct Report { _p: () }
pub type ExecResult<T> = Result<T, Report>;
