// TRUSTED: assumed specifications of std functions that vstd does not specify.
// slice::rotate_right(k): "the last k elements move to the front" (std documentation).
pub assume_specification<T> [ <[T]>::rotate_right ] (s: &mut [T], k: usize)
    requires k <= old(s)@.len(),
    ensures
        final(s)@ == old(s)@.subrange(old(s)@.len() - k, old(s)@.len() as int)
            + old(s)@.subrange(0, old(s)@.len() - k),
;
