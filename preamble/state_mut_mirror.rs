// TRUSTED MIRROR (`&mut`-mirror of `State`, DESIGN §3.2) for bodies that hold ONE guard at a time: the accessors take
// `&mut self` and return `&mut T` that flows back into the abstract state.  Rust's borrow checker inside Verus refuses
// the mirror if two guards are alive at once, so it cannot be misapplied.  "Writing one component leaves the others
// unchanged" are the C01/C02 registry contracts (frame axioms below, trusted here).
#[verifier::external_body]
#[verifier::reject_recursive_types(P)]
pub struct State<P> { _p: core::marker::PhantomData<P> }

#[verifier::external_body]
pub struct Random { _p: () }

pub uninterp spec fn pops_of<P: Problem>(s: State<P>) -> Populations<P>;
pub uninterp spec fn rng_of<P: Problem>(s: State<P>) -> Random;
pub uninterp spec fn with_pops<P: Problem>(s: State<P>, p: Populations<P>) -> State<P>;
pub uninterp spec fn with_rng<P: Problem>(s: State<P>, r: Random) -> State<P>;

pub broadcast proof fn axiom_pops_of_with_pops<P: Problem>(s: State<P>, p: Populations<P>)
    ensures #[trigger] pops_of(with_pops(s, p)) == p,
{ admit(); }
pub broadcast proof fn axiom_rng_of_with_pops<P: Problem>(s: State<P>, p: Populations<P>)
    ensures #[trigger] rng_of(with_pops(s, p)) == rng_of(s),
{ admit(); }
pub broadcast proof fn axiom_rng_of_with_rng<P: Problem>(s: State<P>, r: Random)
    ensures #[trigger] rng_of(with_rng(s, r)) == r,
{ admit(); }
pub broadcast proof fn axiom_pops_of_with_rng<P: Problem>(s: State<P>, r: Random)
    ensures #[trigger] pops_of(with_rng(s, r)) == pops_of(s),
{ admit(); }
pub broadcast group axiom_state_components {
    axiom_pops_of_with_pops, axiom_rng_of_with_pops, axiom_rng_of_with_rng, axiom_pops_of_with_rng
}

impl<P: Problem> State<P> {
    #[verifier::external_body]
    pub fn populations_mut(&mut self) -> (g: &mut Populations<P>)
        ensures *g == pops_of(*old(self)), *final(self) == with_pops(*old(self), *final(g)),
    { unimplemented!() }
    #[verifier::external_body]
    pub fn random_mut(&mut self) -> (g: &mut Random)
        ensures *g == rng_of(*old(self)), *final(self) == with_rng(*old(self), *final(g)),
    { unimplemented!() }
}
