// TRUSTED MIRROR (`&mut`-mirror of value access on `State`, DESIGN §3.2): `try_borrow_value_mut::<T>()` as an
// exclusive reference that flows back into the abstract state.  Sound for bodies that hold ONE guard at a time
// (Rust's borrow checker inside Verus refuses the mirror otherwise).  The real method's contract — resolves T to the
// innermost scope holding it, Err(NotFound) iff absent, a write through the guard is what later reads see — is the
// C01/C02 registry contract (Kani units); `has_value/value_of/with_value` are its abstract view, left uninterpreted.
// NOTE: the real accessors return `StateResult<_>` (= Result<_, StateError>) and callers convert with `?`
// (From<StateError> for eyre::Report).  Verus leaves the value produced by `?`'s FromResidual conversion
// unspecified, so the mirror folds that conversion into its return type: accessors return ExecResult<_>
// directly and the converted error is an uninterpreted function of the pre-state.
pub trait ValueState: Sized { type Target; spec fn target(self) -> Self::Target; }

pub mod common {
    // mirror of `mahf::state::common::Iterations` (newtype over u32 with Deref/DerefMut to the counter)
    pub struct Iterations(pub u32);
}
impl ValueState for common::Iterations { type Target = u32; open spec fn target(self) -> u32 { self.0 } }

pub uninterp spec fn has_value<P, T: ValueState>(s: State<P>) -> bool;
pub uninterp spec fn value_of<P, T: ValueState>(s: State<P>) -> T::Target;
pub uninterp spec fn with_value<P, T: ValueState>(s: State<P>, v: T::Target) -> State<P>;
pub uninterp spec fn missing_value_error<P, T: ValueState>(s: State<P>) -> Report;
pub uninterp spec fn with_inserted<P, T: ValueState>(s: State<P>, v: T::Target) -> State<P>;

impl<P> State<P> {
    #[verifier::external_body]
    pub fn try_borrow_value_mut<T: ValueState>(&mut self) -> (r: ExecResult<&mut T::Target>)
        ensures
            has_value::<P, T>(*old(self)) <==> r is Ok,
            r is Ok ==> *r->Ok_0 == value_of::<P, T>(*old(self))
                && *final(self) == with_value::<P, T>(*old(self), *final(r->Ok_0)),
            r is Err ==> *final(self) == *old(self) && r->Err_0 == missing_value_error::<P, T>(*old(self)),
    { unimplemented!() }
}

impl<P> State<P> {
    // mirror of `StateRegistry::set_value::<T>` (not used by the pinned bodies; present so that changed code which resets a
    // value state is DECIDED against the contracts instead of being rejected as unsupported)
    #[verifier::external_body]
    pub fn set_value<T: ValueState>(&mut self, value: T::Target) -> (r: Option<T::Target>)
        ensures
            has_value::<P, T>(*old(self)) ==> r == Some(value_of::<P, T>(*old(self))) && *final(self) == with_value::<P, T>(*old(self), value),
            !has_value::<P, T>(*old(self)) ==> r is None && *final(self) == *old(self),
    { unimplemented!() }
    // mirror of `StateRegistry::get_value::<T>` (panicking accessor: requires presence)
    #[verifier::external_body]
    pub fn get_value<T: ValueState>(&self) -> (r: T::Target)
        requires has_value::<P, T>(*self),
        ensures r == value_of::<P, T>(*self),
    { unimplemented!() }
}

impl<P> State<P> {
    // mirror of `StateRegistry::insert::<T>` restricted to value states (used by `Loop::init`): the C01 contract
    // "insert writes the innermost scope" is abstracted as `with_inserted`.
    #[verifier::external_body]
    pub fn insert<T: ValueState>(&mut self, t: T) -> (r: Option<T>)
        ensures *final(self) == with_inserted::<P, T>(*old(self), t.target()),
    { unimplemented!() }
}

// get-after-set for value states ("what was written through an exclusive guard is what every later reader sees",
// C01/C02 registry contracts): trusted here, used by the loop-count lemma
pub broadcast proof fn axiom_value_after_write<P, T: ValueState>(s: State<P>, v: T::Target)
    ensures
        #[trigger] has_value::<P, T>(with_value::<P, T>(s, v)),
        value_of::<P, T>(with_value::<P, T>(s, v)) == v,
{ admit(); }
