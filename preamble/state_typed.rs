// TRUSTED MIRROR (combined mirror, DESIGN §3.2): one component written through a temporary exclusive guard is
// modelled as `&mut` that flows back into the abstract state (`typed_get` / `typed_set`), while read guards are
// owned snapshots (state_guards.rs).  "Writing T leaves every other component unchanged" and "the write is what
// later readers see" are the C01/C02 registry contracts; they appear here as the frame axioms below.
pub uninterp spec fn typed_get<P: Problem, T>(s: State<P>) -> T;
pub uninterp spec fn typed_set<P: Problem, T>(s: State<P>, v: T) -> State<P>;

pub broadcast proof fn axiom_typed_set_frame_pops<P: Problem, T>(s: State<P>, v: T)
    ensures #[trigger] pops_of(typed_set::<P, T>(s, v)) == pops_of(s),
{ admit(); }
pub broadcast proof fn axiom_typed_get_set<P: Problem, T>(s: State<P>, v: T)
    ensures #[trigger] typed_get::<P, T>(typed_set::<P, T>(s, v)) == v,
{ admit(); }

impl<P: Problem> State<P> {
    #[verifier::external_body]
    pub fn borrow_mut<T>(&mut self) -> (r: &mut T)
        ensures *r == typed_get::<P, T>(*old(self)), *final(self) == typed_set::<P, T>(*old(self), *final(r)),
    { unimplemented!() }
}
