//! Support code injected (scratch copy only) as `src/verif_harness/mod.rs`.
//!
//! `sym::<T>()` is `kani::any()` under Kani and pops recorded bytes under `--cfg verif_replay`
//! (native replay of a Kani counterexample against the real code, real std, no Kani).
#![allow(dead_code, unused_imports, unused_macros, clippy::all)]

#[cfg(not(kani))]
pub mod replay_input {
    use std::cell::RefCell;
    thread_local! {
        pub static QUEUE: RefCell<Vec<Vec<u8>>> = RefCell::new(Vec::new());
        pub static POS: RefCell<usize> = RefCell::new(0);
    }
    pub fn load(vals: Vec<Vec<u8>>) {
        QUEUE.with(|q| *q.borrow_mut() = vals);
        POS.with(|p| *p.borrow_mut() = 0);
    }
    pub fn pop(n: usize) -> Vec<u8> {
        let i = POS.with(|p| {
            let mut p = p.borrow_mut();
            *p += 1;
            *p - 1
        });
        QUEUE.with(|q| {
            let q = q.borrow();
            match q.get(i) {
                Some(v) if v.len() == n => v.clone(),
                Some(v) => {
                    eprintln!("VERIF-REPLAY-MISMATCH: value #{i} has {} bytes, harness wants {n}", v.len());
                    std::process::exit(3)
                }
                // values the solver left unconstrained are not printed by Kani: use zero
                None => vec![0u8; n],
            }
        })
    }
}

pub trait Sym: Sized {
    fn sym() -> Self;
}
macro_rules! impl_sym_int {
    ($($t:ty),*) => {$(
        impl Sym for $t {
            #[cfg(kani)]
            fn sym() -> Self { kani::any() }
            #[cfg(not(kani))]
            fn sym() -> Self {
                let b = replay_input::pop(std::mem::size_of::<$t>());
                let mut a = [0u8; std::mem::size_of::<$t>()];
                a.copy_from_slice(&b);
                <$t>::from_le_bytes(a)
            }
        }
    )*};
}
impl_sym_int!(u8, u16, u32, u64, usize, i8, i16, i32, i64, isize, f64, f32);
impl Sym for bool {
    #[cfg(kani)]
    fn sym() -> Self { kani::any() }
    #[cfg(not(kani))]
    fn sym() -> Self { replay_input::pop(1)[0] != 0 }
}

pub fn sym<T: Sym>() -> T { T::sym() }

pub fn assume(c: bool) {
    #[cfg(kani)]
    kani::assume(c);
    #[cfg(not(kani))]
    if !c {
        eprintln!("VERIF-REPLAY-ASSUME-VIOLATED");
        std::process::exit(4);
    }
}

#[macro_export]
macro_rules! vcover {
    ($($t:tt)*) => {
        #[cfg(kani)]
        kani::cover!($($t)*);
    };
}

/// A scripted random number generator: every word is a fresh symbolic value (Kani) / recorded value
/// (replay).  Passed to the real code through the public `Random::with_rng`.
pub struct SymRng;
impl rand::RngCore for SymRng {
    fn next_u32(&mut self) -> u32 { sym::<u32>() }
    fn next_u64(&mut self) -> u64 { sym::<u64>() }
    fn fill_bytes(&mut self, dest: &mut [u8]) {
        for b in dest.iter_mut() { *b = sym::<u8>(); }
    }
    fn try_fill_bytes(&mut self, dest: &mut [u8]) -> Result<(), rand::Error> {
        self.fill_bytes(dest);
        Ok(())
    }
}
impl rand::SeedableRng for SymRng {
    type Seed = [u8; 8];
    fn from_seed(_seed: Self::Seed) -> Self { SymRng }
    fn seed_from_u64(_s: u64) -> Self { SymRng }
}

/// A minimal problem type for harnesses: vector-of-u8 encoding (tags), single objective.
pub struct TagProblem;
impl crate::problems::Problem for TagProblem {
    type Encoding = Vec<u8>;
    type Objective = crate::SingleObjective;
    fn name(&self) -> &str { "TagProblem" }
}

/// Legal objective value from a symbolic float (the constructor's own contract is C09).
pub fn sym_objective() -> crate::SingleObjective {
    let x: f64 = sym();
    assume(!x.is_nan() && !(x.is_infinite() && x.is_sign_negative()));
    crate::SingleObjective::try_from(x).unwrap()
}

/// A cheaper problem type: the encoding is a single tag byte.
pub struct ScalarProblem;
impl crate::problems::Problem for ScalarProblem {
    type Encoding = u8;
    type Objective = crate::SingleObjective;
    fn name(&self) -> &str { "ScalarProblem" }
}
/// individual with symbolic tag and symbolic legal objective
pub fn sym_individual() -> crate::Individual<ScalarProblem> {
    let t: u8 = sym();
    crate::Individual::new(t, sym_objective())
}
/// population of `n` symbolic evaluated individuals
pub fn sym_population(n: usize) -> Vec<crate::Individual<ScalarProblem>> {
    let mut v = Vec::with_capacity(n);
    for _ in 0..n { v.push(sym_individual()); }
    v
}
/// number of occurrences of (tag, objective) in a population
pub fn occurrences(pop: &[crate::Individual<ScalarProblem>], x: &crate::Individual<ScalarProblem>) -> usize {
    let mut c = 0;
    for i in pop { if i.solution() == x.solution() && i.get_objective() == x.get_objective() { c += 1; } }
    c
}
