//! Association-list stand-in for std `HashMap`/`HashSet` (registry units under Kani only, DESIGN fact 5).
//! Same interface subset as used by src/state/registry/{mod,entry,multi}.rs; semantics: a map is a map.
#![allow(dead_code)]

pub struct HashMap<K, V> {
    items: Vec<(K, V)>,
}
impl<K, V> Default for HashMap<K, V> {
    fn default() -> Self { Self { items: Vec::new() } }
}
impl<K: PartialEq, V> HashMap<K, V> {
    pub fn new() -> Self { Self { items: Vec::new() } }
    pub fn with_capacity(_n: usize) -> Self { Self { items: Vec::new() } }
    fn pos(&self, k: &K) -> Option<usize> {
        let mut i = 0;
        while i < self.items.len() {
            if self.items[i].0 == *k { return Some(i); }
            i += 1;
        }
        None
    }
    pub fn insert(&mut self, k: K, v: V) -> Option<V> {
        match self.pos(&k) {
            Some(i) => Some(std::mem::replace(&mut self.items[i].1, v)),
            None => { self.items.push((k, v)); None }
        }
    }
    pub fn remove(&mut self, k: &K) -> Option<V> {
        match self.pos(k) {
            Some(i) => Some(self.items.swap_remove(i).1),
            None => None,
        }
    }
    pub fn get(&self, k: &K) -> Option<&V> {
        match self.pos(k) { Some(i) => Some(&self.items[i].1), None => None }
    }
    pub fn get_mut(&mut self, k: &K) -> Option<&mut V> {
        match self.pos(k) { Some(i) => Some(&mut self.items[i].1), None => None }
    }
    pub fn contains_key(&self, k: &K) -> bool { self.pos(k).is_some() }
    pub fn len(&self) -> usize { self.items.len() }
    pub fn is_empty(&self) -> bool { self.items.is_empty() }
    pub fn entry(&mut self, k: K) -> hash_map::Entry<'_, K, V> {
        match self.pos(&k) {
            Some(i) => hash_map::Entry::Occupied(hash_map::OccupiedEntry { map: self, idx: i }),
            None => hash_map::Entry::Vacant(hash_map::VacantEntry { map: self, key: k }),
        }
    }
}

impl<K: serde::Serialize, V: serde::Serialize> serde::Serialize for HashMap<K, V> {
    fn serialize<S: serde::Serializer>(&self, serializer: S) -> Result<S::Ok, S::Error> {
        use serde::ser::SerializeMap;
        let mut m = serializer.serialize_map(Some(self.items.len()))?;
        for (k, v) in &self.items {
            m.serialize_entry(k, v)?;
        }
        m.end()
    }
}

pub struct HashSet<K> {
    items: Vec<K>,
}
impl<K: PartialEq> HashSet<K> {
    pub fn new() -> Self { Self { items: Vec::new() } }
    pub fn insert(&mut self, k: K) -> bool {
        let mut i = 0;
        while i < self.items.len() {
            if self.items[i] == k { return false; }
            i += 1;
        }
        self.items.push(k);
        true
    }
}

pub mod hash_map {
    use super::HashMap;
    pub enum Entry<'a, K, V> {
        Occupied(OccupiedEntry<'a, K, V>),
        Vacant(VacantEntry<'a, K, V>),
    }
    impl<'a, K: PartialEq, V> Entry<'a, K, V> {
        pub fn or_insert_with<F: FnOnce() -> V>(self, default: F) -> &'a mut V {
            match self {
                Entry::Occupied(e) => e.into_mut(),
                Entry::Vacant(e) => e.insert(default()),
            }
        }
        pub fn or_insert(self, default: V) -> &'a mut V {
            match self {
                Entry::Occupied(e) => e.into_mut(),
                Entry::Vacant(e) => e.insert(default),
            }
        }
    }
    pub struct OccupiedEntry<'a, K, V> {
        pub(super) map: &'a mut HashMap<K, V>,
        pub(super) idx: usize,
    }
    impl<'a, K: PartialEq, V> OccupiedEntry<'a, K, V> {
        pub fn get(&self) -> &V { &self.map.items[self.idx].1 }
        pub fn get_mut(&mut self) -> &mut V { &mut self.map.items[self.idx].1 }
        pub fn into_mut(self) -> &'a mut V { &mut self.map.items[self.idx].1 }
        pub fn insert(&mut self, v: V) -> V { std::mem::replace(&mut self.map.items[self.idx].1, v) }
        pub fn remove(self) -> V { self.map.items.swap_remove(self.idx).1 }
    }
    pub struct VacantEntry<'a, K, V> {
        pub(super) map: &'a mut HashMap<K, V>,
        pub(super) key: K,
    }
    impl<'a, K: PartialEq, V> VacantEntry<'a, K, V> {
        pub fn insert(self, v: V) -> &'a mut V {
            self.map.items.push((self.key, v));
            let n = self.map.items.len();
            &mut self.map.items[n - 1].1
        }
    }
}
